package main

// Calls: builtins, contracts (modular), inlining, assumed stdlib contracts.

import (
	"go/constant"
	"fmt"
	"go/types"
	"math/big"
	"strings"

	"golang.org/x/tools/go/ssa"
)

type bigInt = big.Int

var bigOne = big.NewInt(1)

const maxInlineDepth = 6

func (x *Exec) execCall(fc *frameCtx, st *State, i *ssa.Call) Val {
	cc := i.Common()
	if bi, ok := cc.Value.(*ssa.Builtin); ok {
		return x.execBuiltin(fc, st, i, bi)
	}
	if cc.IsInvoke() {
		return x.execInvoke(fc, st, i)
	}
	callee := cc.StaticCallee()
	if callee == nil {
		return x.execDynCall(fc, st, i)
	}
	if x.mapFn != nil {
		callee = x.mapFn(callee)
	}
	var args []Val
	sig := callee.Signature
	for k, a := range cc.Args {
		var want types.Type
		kk := k
		if sig.Recv() != nil {
			if k == 0 {
				want = sig.Recv().Type()
			}
			kk = k - 1
		}
		if want == nil {
			if sig.Variadic() && kk >= sig.Params().Len()-1 {
				want = sig.Params().At(sig.Params().Len() - 1).Type()
			} else if kk < sig.Params().Len() {
				want = sig.Params().At(kk).Type()
			}
		}
		args = append(args, x.operand(fc, a, want))
	}
	return x.callFunction(fc, st, i, callee, args)
}

func (x *Exec) callFunction(fc *frameCtx, st *State, i *ssa.Call, callee *ssa.Function, args []Val) Val {
	pkg := funcPkgPath(callee)
	if x.onCall != nil {
		x.onCall(st, callee, args)
	}
	if callee.Name() == "init" && callee.Signature.Recv() == nil && callee.Signature.Params().Len() == 0 {
		return nil // initialiser of an imported package: cannot reference the importing package's state
	}
	if fc.top && fc.con != nil {
		for k, ac := range fc.con.AtCalls {
			if ac.Callee != funcKey(callee) && ac.Callee != shortPkg(pkg)+"."+funcKey(callee) {
				continue
			}
			var tvs []TV
			for j, a := range args {
				var pt types.Type
				if j < len(callee.Params) {
					pt = callee.Params[j].Type()
				} else if sg := callee.Signature; sg.Recv() == nil && j < sg.Params().Len() {
					pt = sg.Params().At(j).Type() // body-less (standard library) callee
				}
				tvs = append(tvs, TV{a, pt})
			}
			fc.callArgs = tvs
			t := x.evalBool(fc, st, ac.Expr, nil)
			fc.callArgs = nil
			x.oblige(st, fmt.Sprintf("at-call:%d", k), ac.Callee+": "+ac.Expr.String(), i.Pos(), t, nil)
		}
	}
	if con := x.W.contractFor(callee); con != nil && !con.Inline {
		return x.applyContract(fc, st, i, callee, con, args)
	}
	if !strings.HasPrefix(pkg, modPath) {
		return x.stdlibCall(fc, st, i, callee, args)
	}
	// in-module, no contract: inline
	if x.depth >= maxInlineDepth {
		oos("inline depth exceeded at %s", callee)
	}
	x.depth++
	defer func() { x.depth-- }()
	x.Inlined[shortPkg(pkg)+"."+funcKey(callee)] = true
	sub := x.runFunction(callee, st, args, x.W.contractFor(callee), false)
	// merge return states back into st
	if len(sub.rets) == 0 {
		st.Guard = tFalse
		return x.zeroVal(callee.Signature.Results())
	}
	if len(sub.rets) == 1 {
		*st = *sub.rets[0].st
		return sub.rets[0].val
	}
	var gs []*Term
	var vals []Val
	for _, r := range sub.rets {
		gs = append(gs, r.st.Guard)
		vals = append(vals, r.val)
	}
	ns := &State{Heap: map[string]*Term{}}
	ns.Guard = x.Sc.Define("g_ret", tOr(gs...))
	keys := map[string]bool{}
	for _, r := range sub.rets {
		for k := range r.st.Heap {
			keys[k] = true
		}
	}
	for _, k := range sortedKeys(keys) {
		var acc *Term
		for j := len(sub.rets) - 1; j >= 0; j-- {
			h, ok := sub.rets[j].st.Heap[k]
			if !ok {
				h = x.init[k]
			}
			if acc == nil {
				acc = h
			} else {
				acc = tIte(gs[j], h, acc)
			}
		}
		ns.Heap[k] = x.Sc.Define("Hr_"+sanitize(k), acc)
	}
	var acc *Term
	for j := len(sub.rets) - 1; j >= 0; j-- {
		if acc == nil {
			acc = sub.rets[j].st.Alloc
		} else {
			acc = tIte(gs[j], sub.rets[j].st.Alloc, acc)
		}
	}
	ns.Alloc = x.Sc.Define("alloc", acc)
	*st = *ns
	if vals[0] == nil {
		return nil
	}
	var rt types.Type = callee.Signature.Results()
	if callee.Signature.Results().Len() == 1 {
		rt = callee.Signature.Results().At(0).Type()
	}
	return x.mergeVals(i.Name(), rt, gs, vals)
}

// applyContract: assert requires, havoc the frame, assume ensures.
func (x *Exec) applyContract(fc *frameCtx, st *State, i *ssa.Call, callee *ssa.Function, con *Contract, args []Val) Val {
	name := shortPkg(funcPkgPath(callee)) + "." + funcKey(callee)
	x.Callees[name] = true
	cfc := &frameCtx{fn: callee, env: map[ssa.Value]Val{}, con: con, params: map[string]TV{}}
	for k, p := range callee.Params {
		cfc.params[p.Name()] = TV{args[k], p.Type()}
	}
	cfc.entry = st.clone()
	for k, r := range con.Requires {
		t := x.evalBool(cfc, st, r, nil)
		if x.assumeReq != nil && x.assumeReq(name, r) {
			x.Sc.Assert(tImp(st.Guard, t))
			continue
		}
		if !x.noSafety {
			site := fmt.Sprintf("%s@%s", r.String(), x.exprText(i, i.Pos()))
			if x.curLabel != "" {
				site = x.curLabel + ":" + site
			}
			x.oblige(st, "pre:"+name, site, i.Pos(), t, nil)
		} else {
			x.Sc.Assert(tImp(st.Guard, t))
		}
		_ = k
	}
	old := st.clone()
	x.havocForCall(cfc, st, old, callee, con)
	var res Val
	rs := callee.Signature.Results()
	switch rs.Len() {
	case 0:
	case 1:
		res = x.freshVal(st, i.Name()+"_res", rs.At(0).Type())
	default:
		res = x.freshVal(st, i.Name()+"_res", rs)
		tv := res.(TupleV)
		for k := range tv {
			x.assumeWF(st, tv[k], rs.At(k).Type())
		}
	}
	cfc.result = res
	for _, e := range con.Ensures {
		t := x.evalBoolOld(cfc, st, old, e)
		x.Sc.Assert(tImp(st.Guard, t))
	}
	for _, e := range con.AssumedEns {
		t := x.evalBoolOld(cfc, st, old, e)
		x.Sc.Assert(tImp(st.Guard, t))
		x.Assumed["assumed postcondition of "+name+": "+e.String()] = true
	}
	return res
}

type modEntry struct {
	key   string             // heap key (with component suffix)
	ref   *Term              // object ref / array id; nil = whole key (unless allow is set)
	allow func(r *Term) *Term // set-valued entry: refs satisfying this may change
}

// mayChange returns the condition under which ref r of key k is outside the frame, or nil when the whole key is.
func modExcl(mods []modEntry, k string, r *Term) (excl []*Term, whole bool) {
	for _, m := range mods {
		if m.key != k {
			continue
		}
		switch {
		case m.allow != nil:
			excl = append(excl, tNot(m.allow(r)))
		case m.ref == nil:
			whole = true
		default:
			excl = append(excl, tNe(r, m.ref))
		}
	}
	return
}

// modSet evaluates the modifies clause in the pre-state into (key, ref) pairs.
func (x *Exec) modSet(cfc *frameCtx, old *State, con *Contract) []modEntry {
	var out []modEntry
	for _, m := range con.Modifies {
		out = append(out, x.modLoc(cfc, old, m)...)
	}
	for _, g := range con.GhostRet {
		out = append(out, x.modLoc(cfc, old, g.Loc)...)
	}
	return out
}

func (x *Exec) modLoc(cfc *frameCtx, old *State, m *CExpr) []modEntry {
	var out []modEntry
	switch m.Kind {
	case "sel":
		base := x.eval(cfc, old, old, m.Args[0], nil)
		ref, t := x.structRefOf(base)
		st, _ := isStruct(t)
		for f := 0; f < st.NumFields(); f++ {
			if st.Field(f).Name() != m.Name {
				continue
			}
			ft := st.Field(f).Type()
			if _, ok := isStruct(ft); ok {
				sub := map[string]bool{}
				structKeys(ft, sub)
				for _, k := range sortedKeys(sub) {
					out = append(out, modEntry{key: k}) // coarse: nested struct → whole keys
				}
				return out
			}
			for _, c := range compsOf(ft) {
				out = append(out, modEntry{key: fieldKey(t, st, f) + c.Suffix, ref: ref})
			}
			return out
		}
		if n, ok := t.(*types.Named); ok {
			if g := x.W.ghostField(n, m.Name); g != nil {
				return []modEntry{{key: "F:" + typeName(t) + "." + g.Name, ref: ref}}
			}
		}
		oos("modifies: no field %s in %s", m.Name, t)
	case "call":
		if m.Name == "unissued" {
			// every field of every pool cell that had not been handed out before the call
			pv := x.eval(cfc, old, old, m.Args[0], nil)
			ref, t := x.structRefOf(pv)
			st, _ := isStruct(t)
			var et types.Type
			for f := 0; f < st.NumFields(); f++ {
				if st.Field(f).Name() == "block" {
					et = st.Field(f).Type().Underlying().(*types.Slice).Elem()
				}
			}
			if et == nil {
				oos("unissued(): %s has no block field", t)
			}
			issued := mkApp("select", SArrIB, x.heapGet(old, "F:"+typeName(t)+".issued", arrSort(SArrIB)), ref)
			sub := map[string]bool{}
			structKeys(et, sub)
			for _, k := range sortedKeys(sub) {
				out = append(out, modEntry{key: k, allow: func(r *Term) *Term { return tNot(mkApp("select", SBool, issued, r)) }})
			}
			return out
		}
		if m.Name == "elems" {
			sv := x.eval(cfc, old, old, m.Args[0], nil)
			sl, ok := sv.V.(SliceV)
			if !ok {
				oos("elems() of non-slice")
			}
			et := sv.T.Underlying().(*types.Slice).Elem()
			if _, isS := isStruct(et); isS {
				sub := map[string]bool{}
				structKeys(et, sub)
				for _, k := range sortedKeys(sub) {
					out = append(out, modEntry{key: k})
				}
				return out
			}
			for _, c := range compsOf(et) {
				out = append(out, modEntry{key: elemKey(et) + c.Suffix, ref: sl.Arr})
			}
			return out
		}
	}
	oos("unsupported modifies location %s", m)
	return nil
}

func (x *Exec) structRefOf(tv TV) (*Term, types.Type) {
	t := tv.T
	if p, ok := t.Underlying().(*types.Pointer); ok {
		t = p.Elem()
	}
	ref, ok := tv.V.(*Term)
	if !ok {
		oos("expected pointer to struct, got %T", tv.V)
	}
	return ref, t
}

func (x *Exec) havocForCall(cfc *frameCtx, st, old *State, callee *ssa.Function, con *Contract) {
	wk := x.W.writeKeys(callee)
	var mods []modEntry
	if con.HasMod {
		mods = x.modSet(cfc, old, con)
	}
	newAlloc := x.Sc.Fresh("alloc_c", SInt)
	x.Sc.Assert(tImp(st.Guard, tGe(newAlloc, old.Alloc)))
	for _, k := range sortedKeys(wk) {
		if strings.HasPrefix(k, "?") {
			oos("callee %s writes through unknown pointers", callee)
		}
		oldH, ok := x.lookupHeap(old, k)
		if !ok || oldH == nil {
			// never accessed so far: declare the initial array now so the frame axiom can refer to it
			srt := x.sortOfKey(k)
			if srt == "" {
				continue
			}
			oldH = x.heapGet(old, k, srt)
		}
		nh := x.Sc.Fresh("Hc_"+sanitize(k), oldH.sort)
		st.Heap[k] = nh
		if !con.HasMod {
			continue
		}
		// frame: forall r < old alloc, r not in modset(k): nh[r] == oldH[r]
		r := mkConst("fr", SInt)
		excl, whole := modExcl(mods, k, r)
		if whole {
			continue
		}
		sel := mkApp("select", elemSort(nh.sort), nh, r)
		body := tImp(tAnd(append([]*Term{tLt(r, old.Alloc)}, excl...)...), tEq(sel, mkApp("select", elemSort(nh.sort), oldH, r)))
		x.Sc.Assert(tImp(st.Guard, tForallPat([]*Term{r}, body, sel)))
	}
	st.Alloc = newAlloc
}

var keySorts = map[string]string{}

func (x *Exec) sortOfKey(k string) string {
	if s, ok := keySorts[k]; ok {
		return s
	}
	if t, ok := x.init[k]; ok {
		return t.sort
	}
	return ""
}

// registerKeySorts records the sort of every heap key of the struct types in the module, so
// that frame axioms can be stated for keys the caller has not touched yet.
func (w *World) registerKeySorts() {
	for path, p := range w.PkgByPath {
		if !strings.HasPrefix(path, modPath) {
			continue
		}
		sc := p.Types.Scope()
		for _, n := range sc.Names() {
			tn, ok := sc.Lookup(n).(*types.TypeName)
			if !ok {
				continue
			}
			st, ok := isStruct(tn.Type())
			if !ok {
				continue
			}
			for f := 0; f < st.NumFields(); f++ {
				ft := st.Field(f).Type()
				func() {
					defer func() { recover() }()
					if _, ok := isStruct(ft); ok {
						return
					}
					if _, ok := ft.Underlying().(*types.Array); ok {
						return
					}
					for _, c := range compsOf(ft) {
						keySorts[fieldKey(tn.Type(), st, f)+c.Suffix] = arrSort(c.Sort)
					}
					if sl, ok := ft.Underlying().(*types.Slice); ok {
						if _, isS := isStruct(sl.Elem()); !isS {
							for _, c := range compsOf(sl.Elem()) {
								keySorts[elemKey(sl.Elem())+c.Suffix] = arrSort(arrSort(c.Sort))
							}
						}
					}
				}()
			}
		}
		if cf := w.CFiles[path]; cf != nil {
			for _, g := range cf.Ghosts {
				keySorts["F:"+shortPkg(path)+"."+g.Type+"."+g.Name] = arrSort(ghostSort(g.Sort))
			}
		}
	}
	for _, bt := range []types.Type{types.Typ[types.Uint8], types.Typ[types.Int]} {
		keySorts[elemKey(bt)] = SArr2I
	}
	keySorts["G:ghost.cbcount"] = SArrII
	keySorts["G:ghost.cbarg"] = SArrII
	keySorts["G:ghost.errcalls"] = SArrII
}

// ---------------------------------------------------------------------------

func (x *Exec) execBuiltin(fc *frameCtx, st *State, i *ssa.Call, bi *ssa.Builtin) Val {
	args := i.Common().Args
	switch bi.Name() {
	case "ssa:deferstack":
		return mkInt(0) // handle of the (unused) defer stack; only present in unlifted SSA
	case "len":
		v := x.operand(fc, args[0], nil)
		switch vv := v.(type) {
		case SliceV:
			return vv.Len
		case *Term:
			if _, ok := args[0].Type().Underlying().(*types.Map); ok {
				return x.mapLen(st, args[0].Type(), vv)
			}
			return x.strLen(vv)
		}
	case "cap":
		v := x.operand(fc, args[0], nil)
		if sv, ok := v.(SliceV); ok {
			return sv.Cap
		}
	case "append":
		return x.execAppend(fc, st, i)
	case "copy":
		return x.execCopy(fc, st, i)
	case "delete":
		oos("delete")
	}
	oos("builtin %s", bi.Name())
	return nil
}

// append(s, t...): either in place (len+n <= cap) or into a fresh array.
func (x *Exec) execAppend(fc *frameCtx, st *State, i *ssa.Call) Val {
	args := i.Common().Args
	sl := args[0].Type().Underlying().(*types.Slice)
	s := x.operand(fc, args[0], sl).(SliceV)
	var t SliceV
	if bt, ok := args[1].Type().Underlying().(*types.Basic); ok && bt.Info()&types.IsString != 0 {
		oos("append(bytes, string...)")
	} else {
		t = x.operand(fc, args[1], sl).(SliceV)
	}
	if _, ok := isStruct(sl.Elem()); ok {
		oos("append on slice of structs")
	}
	newLen := x.Sc.Define(i.Name()+"_len", tAdd(s.Len, t.Len))
	fits := x.Sc.Define(i.Name()+"_fits", tLe(newLen, s.Cap))
	freshArr := x.bump(st, mkInt(1))
	newCap := x.Sc.Fresh(i.Name()+"_cap", SInt)
	x.Sc.Assert(tImp(st.Guard, tGe(newCap, newLen)))
	// when t is empty Go may return s itself
	res := SliceV{
		Arr: x.Sc.Define(i.Name()+"_arr", tIte(fits, s.Arr, freshArr)),
		Off: x.Sc.Define(i.Name()+"_off", tIte(fits, s.Off, mkInt(0))),
		Len: newLen,
		Cap: x.Sc.Define(i.Name()+"_capv", tIte(fits, s.Cap, newCap)),
	}
	x.Sc.Assert(tImp(tAnd(st.Guard, tEq(s.Arr, mkInt(0)), tEq(t.Len, mkInt(0))), tTrue))
	for _, c := range compsOf(sl.Elem()) {
		key := elemKey(sl.Elem()) + c.Suffix
		h := x.heapGet(st, key, arrSort(arrSort(c.Sort)))
		srcS := tSelect(h, s.Arr)
		srcT := tSelect(h, t.Arr)
		// resulting contents of the destination array
		dst := x.Sc.Fresh(i.Name()+"_dst", arrSort(c.Sort))
		k := mkConst("ak", SInt)
		selD := mkApp("select", c.Sort, dst, k)
		base := tIte(fits, s.Off, mkInt(0))
		// positions holding the old elements
		oldPart := tImp(tAnd(tLe(base, k), tLt(k, tAdd(base, s.Len))), tEq(selD, mkApp("select", c.Sort, srcS, tAdd(s.Off, tSub(k, base)))))
		newPart := tImp(tAnd(tLe(tAdd(base, s.Len), k), tLt(k, tAdd(base, newLen))), tEq(selD, mkApp("select", c.Sort, srcT, tAdd(t.Off, tSub(k, tAdd(base, s.Len))))))
		// in-place: everything outside the appended window is unchanged
		rest := tImp(tAnd(fits, tOr(tLt(k, tAdd(base, s.Len)), tGe(k, tAdd(base, newLen)))), tEq(selD, mkApp("select", c.Sort, srcS, k)))
		x.Sc.Assert(tImp(st.Guard, tForallPat([]*Term{k}, tAnd(oldPart, newPart, rest), selD)))
		// common case: exactly one appended element, stated without quantifier as well
		x.Sc.Assert(tImp(tAnd(st.Guard, tEq(t.Len, mkInt(1))), tEq(tSelect(dst, tAdd(base, s.Len)), tSelect(srcT, t.Off))))
		x.heapSet(st, key, tStore(h, res.Arr, dst))
	}
	return res
}

// execCopy: copy(dst, src) for slices of structs whose arrays are distinct (asserted as an obligation: the
// destination was allocated after the source). Every field map of the element type is replaced by an
// array comprehension (z3 lambda) that reads the source range through the destination range.
func (x *Exec) execCopy(fc *frameCtx, st *State, i *ssa.Call) Val {
	cc := i.Common()
	sl, ok := cc.Args[0].Type().Underlying().(*types.Slice)
	if !ok {
		oos("copy into %s", cc.Args[0].Type())
	}
	est, isS := isStruct(sl.Elem())
	if !isS || x.roTables == nil {
		oos("copy")
	}
	dst := x.operand(fc, cc.Args[0], sl).(SliceV)
	src, ok := x.operand(fc, cc.Args[1], sl).(SliceV)
	if !ok {
		oos("copy from %s", cc.Args[1].Type())
	}
	sz := mkInt(structSize(sl.Elem()))
	n := x.Sc.Define("copy_n", tIte(tLe(dst.Len, src.Len), dst.Len, src.Len))
	// no overlap: the two windows lie in different arrays (checked)
	x.oblige(st, "copy", x.exprText(i, i.Pos())+": source and destination arrays are distinct", i.Pos(), tNe(dst.Arr, src.Arr), nil)
	lo := x.Sc.Define("copy_lo", tAdd(dst.Arr, tMul(dst.Off, sz)))
	hi := x.Sc.Define("copy_hi", tAdd(lo, tMul(n, sz)))
	delta := x.Sc.Define("copy_d", tSub(tAdd(src.Arr, tMul(src.Off, sz)), lo))
	for f := 0; f < est.NumFields(); f++ {
		ft := est.Field(f).Type()
		if _, nested := isStruct(ft); nested {
			oos("copy of elements with nested structs")
		}
		if _, arr := ft.Underlying().(*types.Array); arr {
			oos("copy of elements with array fields")
		}
		for _, c := range compsOf(ft) {
			key := fieldKey(sl.Elem(), est, f) + c.Suffix
			h := x.heapGet(st, key, arrSort(c.Sort))
			r := mkConst("cr", SInt)
			body := tIte(tAnd(tLe(lo, r), tLt(r, hi)), mkApp("select", c.Sort, h, tAdd(r, delta)), mkApp("select", c.Sort, h, r))
			nh := x.Sc.Define("Hcopy_"+sanitize(key), tLambda(r, body, arrSort(c.Sort)))
			x.heapSet(st, key, nh)
		}
	}
	return n
}

// ---------------------------------------------------------------------------
// dynamic calls: function values are caller code (error callback). Assumed passive.

func (x *Exec) execDynCall(fc *frameCtx, st *State, i *ssa.Call) Val {
	cc := i.Common()
	fv := x.operand(fc, cc.Value, nil).(*Term)
	x.safety(st, "nilfunc", i.Pos(), i, tNe(fv, mkInt(0)))
	x.Assumed["callback "+x.exprText(i, i.Pos())+" is passive caller code: it does not modify library state (DESIGN §7.8)"] = true
	rs := cc.Signature().Results()
	x.noteCallback(fc, st, i)
	switch rs.Len() {
	case 0:
		return nil
	case 1:
		return x.freshVal(st, i.Name(), rs.At(0).Type())
	}
	return x.freshVal(st, i.Name(), rs)
}

// noteCallback records a ghost "callback invoked" event (used by C06 contracts).
func (x *Exec) noteCallback(fc *frameCtx, st *State, i *ssa.Call) {
	key := "G:ghost.cbcount"
	h := x.heapGet(st, key, SArrII)
	x.heapSet(st, key, tStore(h, mkInt(0), tAdd(tSelect(h, mkInt(0)), mkInt(1))))
	if len(i.Common().Args) == 1 {
		if a, ok := x.operand(fc, i.Common().Args[0], nil).(*Term); ok && a.sort == SInt {
			h2 := x.heapGet(st, "G:ghost.cbarg", SArrII)
			x.heapSet(st, "G:ghost.cbarg", tStore(h2, mkInt(0), a))
		}
	}
}

func (x *Exec) execInvoke(fc *frameCtx, st *State, i *ssa.Call) Val {
	cc := i.Common()
	recv := x.operand(fc, cc.Value, nil).(IfaceV)
	x.safety(st, "nil", i.Pos(), i, tNe(recv.Tag, mkInt(0)))
	m := cc.Method
	if recv.Tag.isInt() {
		if dt, ok := x.W.typeByID[int(recv.Tag.ival.Int64())]; ok {
			ms := x.W.Prog.MethodSets.MethodSet(dt)
			if sel := ms.Lookup(m.Pkg(), m.Name()); sel != nil {
				callee := x.W.Prog.MethodValue(sel)
				args := []Val{recv.Ref}
				for k, a := range cc.Args {
					args = append(args, x.operand(fc, a, callee.Signature.Params().At(k).Type()))
				}
				return x.callFunction(fc, st, i, callee, args)
			}
		}
	}
	if nt, ok := cc.Value.Type().(*types.Named); ok && x.ifaceImpl != nil {
		if impl := x.ifaceImpl[nt.Obj().Name()]; impl != nil {
			dt := types.NewPointer(impl)
			ms := x.W.Prog.MethodSets.MethodSet(dt)
			if sel := ms.Lookup(m.Pkg(), m.Name()); sel != nil {
				callee := x.W.Prog.MethodValue(sel)
				x.safety(st, "dyn", i.Pos(), i, tEq(recv.Tag, mkInt(int64(x.W.typeID(dt)))))
				args := []Val{recv.Ref}
				for k, a := range cc.Args {
					args = append(args, x.operand(fc, a, callee.Signature.Params().At(k).Type()))
				}
				return x.callFunction(fc, st, i, callee, args)
			}
		}
	}
	// ast.Vertex.GetPosition: every node kind returns its Position field (checked by E-TRACE/C12 accept table)
	if m.Name() == "GetPosition" && cc.Signature().Params().Len() == 0 {
		x.Assumed["ast.Vertex.GetPosition returns the node's Position field (checked per kind by gram/getposition obligations)"] = true
		h := x.heapGet(st, posKey, SArrII)
		v := x.Sc.Define(i.Name(), tSelect(h, recv.Ref))
		x.assumeWF(st, v, cc.Signature().Results().At(0).Type())
		return v
	}
	if m.Name() == "Error" && cc.Signature().Params().Len() == 0 {
		x.Assumed["error.Error() is pure"] = true
		return x.freshVal(st, i.Name(), types.Typ[types.String])
	}
	oos("interface method call %s.%s", cc.Value.Type(), m.Name())
	return nil
}

// ---------------------------------------------------------------------------
// assumed contracts for the standard library

func (x *Exec) stdlibCall(fc *frameCtx, st *State, i *ssa.Call, callee *ssa.Function, args []Val) Val {
	name := callee.String()
	if callee.Name() == "init" && callee.Signature.Recv() == nil && callee.Signature.Params().Len() == 0 {
		return nil // initialiser of an imported package: cannot reference this package's state
	}
	assume := func(desc string) { x.Assumed["stdlib "+name+": "+desc] = true }
	switch name {
	case "bytes.Equal":
		assume("pure; true implies equal lengths; does not retain or modify arguments")
		a, b := args[0].(SliceV), args[1].(SliceV)
		r := x.Sc.Fresh(i.Name(), SBool)
		x.Sc.Assert(tImp(r, tEq(a.Len, b.Len)))
		return r
	case "bytes.HasPrefix", "bytes.HasSuffix":
		assume("pure; true implies len(prefix) <= len(s)")
		a, b := args[0].(SliceV), args[1].(SliceV)
		r := x.Sc.Fresh(i.Name(), SBool)
		x.Sc.Assert(tImp(r, tLe(b.Len, a.Len)))
		return r
	case "strings.HasSuffix", "strings.HasPrefix":
		assume("pure; true implies len(suffix) <= len(s); a function of its arguments")
		a, b := args[0].(*Term), args[1].(*Term)
		fn := "std." + sanitize(name)
		x.Sc.DeclareFun(fn, []string{SInt, SInt}, SBool)
		r := x.Sc.Define(i.Name(), mkApp(fn, SBool, a, b))
		x.Sc.Assert(tImp(r, tLe(x.strLen(b), x.strLen(a))))
		return r
	case "strings.ToLower":
		assume("pure function of its argument; idempotent; length preserving on the inputs considered")
		a := args[0].(*Term)
		x.Sc.DeclareFun("str.lower", []string{SInt}, SInt)
		r := x.Sc.Define(i.Name(), mkApp("str.lower", SInt, a))
		x.Sc.Assert(tEq(mkApp("str.lower", SInt, r), r))
		return r
	case "errors.New":
		assume("returns a fresh non-nil error")
		ref := x.bump(st, mkInt(1))
		return IfaceV{mkInt(int64(x.W.typeID(types.Typ[types.UnsafePointer]))), ref}
	case "fmt.Sprintf":
		res := x.havocResult(st, i, callee)
		if c, ok := i.Common().Args[0].(*ssa.Const); ok && c.Value != nil && c.Value.Kind() == constant.String {
			f := constant.StringVal(c.Value)
			n := 0
			for n < len(f) && f[n] != '%' {
				n++
			}
			if n > 0 {
				assume("the result starts with the literal prefix of a constant format string (so it is at least that long)")
				x.Sc.Assert(tImp(st.Guard, tGe(x.strLen(res.(*Term)), mkInt(int64(n)))))
			}
		}
		assume("pure; result otherwise unconstrained (fresh allocation)")
		return res
	case "strings.SplitN", "strconv.ParseUint", "strconv.ParseInt", "strconv.Quote", "strconv.Itoa", "strings.Replace", "strings.Repeat", "strings.Join", "strings.TrimSuffix", "strings.TrimPrefix", "strings.Split":
		assume("pure; result unconstrained (fresh allocation)")
		return x.havocResult(st, i, callee)
	}
	oos("call to %s has no assumed contract", name)
	return nil
}

func (x *Exec) havocResult(st *State, i *ssa.Call, callee *ssa.Function) Val {
	na := x.Sc.Fresh("alloc_s", SInt)
	x.Sc.Assert(tImp(st.Guard, tGe(na, st.Alloc)))
	st.Alloc = na
	rs := callee.Signature.Results()
	switch rs.Len() {
	case 0:
		return nil
	case 1:
		return x.freshVal(st, i.Name(), rs.At(0).Type())
	}
	tv := x.freshValNoWF(i.Name(), rs).(TupleV)
	for k := range tv {
		x.assumeWF(st, tv[k], rs.At(k).Type())
	}
	return tv
}

// ---------------------------------------------------------------------------
// maps: a map value is a reference; per map type two heap arrays
//   M:<type>.has  : ref -> key -> Bool      M:<type>.val<comp> : ref -> key -> value component
// keys: strings by identity (contents), integers, pointers and interfaces by reference.

func mapKeyOf(t types.Type) string { return "M:" + typeName(t) }

func (x *Exec) mapKeyTerm(v Val) *Term {
	switch k := v.(type) {
	case *Term:
		return k
	case IfaceV:
		return k.Ref
	}
	oos("unsupported map key %T", v)
	return nil
}

func (x *Exec) mapInit(st *State, t types.Type, ref *Term) {
	mk := mapKeyOf(t)
	h := x.heapGet(st, mk+".has", SArr2B)
	x.heapSet(st, mk+".has", tStore(h, ref, zeroOf(SArrIB)))
}

func (x *Exec) mapLen(st *State, t types.Type, ref *Term) *Term {
	l := x.Sc.Fresh("maplen", SInt)
	x.Sc.Assert(tGe(l, mkInt(0)))
	return l
}

func (x *Exec) mapHas(st *State, t types.Type, ref, key *Term) *Term {
	h := x.heapGet(st, mapKeyOf(t)+".has", SArr2B)
	// the nil map has no entries
	x.Sc.Assert(tEq(tSelect(x.heapGet(st, mapKeyOf(t)+".has", SArr2B), mkInt(0)), zeroOf(SArrIB)))
	return mkApp("select", SBool, tSelect(h, ref), key)
}

func (x *Exec) mapValue(st *State, t types.Type, ref, key *Term) Val {
	mt := t.Underlying().(*types.Map)
	cs := compsOf(mt.Elem())
	ts := make([]*Term, len(cs))
	for i, c := range cs {
		h := x.heapGet(st, mapKeyOf(t)+".val"+c.Suffix, arrSort(arrSort(c.Sort)))
		ts[i] = mkApp("select", c.Sort, tSelect(h, ref), key)
	}
	return unflatten(mt.Elem(), ts)
}

func (x *Exec) execLookup(fc *frameCtx, st *State, i *ssa.Lookup) {
	mt, ok := i.X.Type().Underlying().(*types.Map)
	if !ok {
		oos("lookup in %s", i.X.Type())
	}
	m := x.operand(fc, i.X, nil).(*Term)
	key := x.mapKeyTerm(x.operand(fc, i.Index, mt.Key()))
	has := x.Sc.Define(i.Name()+"_ok", x.mapHas(st, i.X.Type(), m, key))
	val := x.mapValue(st, i.X.Type(), m, key)
	zero := x.coerce(x.zeroVal(mt.Elem()), mt.Elem())
	fv, fz := flatten(x.coerce(val, mt.Elem())), flatten(zero)
	res := make([]*Term, len(fv))
	for k := range fv {
		res[k] = x.Sc.Define(i.Name(), tIte(has, fv[k], fz[k]))
	}
	v := unflatten(mt.Elem(), res)
	x.assumeWF(st, v, mt.Elem())
	if i.CommaOk {
		fc.env[i] = TupleV{v, has}
	} else {
		fc.env[i] = v
	}
}

func (x *Exec) execMapUpdate(fc *frameCtx, st *State, i *ssa.MapUpdate) {
	mt := i.Map.Type().Underlying().(*types.Map)
	m := x.operand(fc, i.Map, nil).(*Term)
	x.safety(st, "nil", i.Pos(), i, tNe(m, mkInt(0))) // assignment to an entry of a nil map panics
	key := x.mapKeyTerm(x.operand(fc, i.Key, mt.Key()))
	val := x.coerce(x.operand(fc, i.Value, mt.Elem()), mt.Elem())
	mk := mapKeyOf(i.Map.Type())
	h := x.heapGet(st, mk+".has", SArr2B)
	x.heapSet(st, mk+".has", tStore(h, m, tStore(tSelect(h, m), key, tTrue)))
	fv := flatten(val)
	for k, c := range compsOf(mt.Elem()) {
		hk := mk + ".val" + c.Suffix
		hv := x.heapGet(st, hk, arrSort(arrSort(c.Sort)))
		x.heapSet(st, hk, tStore(hv, m, tStore(tSelect(hv, m), key, fv[k])))
	}
}
