package main

// Replay of failed obligations against the real code: a per-property Go test harness is injected
// into the repository package with `go test -overlay` (nothing is written into /repo). The harness
// receives the obligation name and the solver model and searches for a concrete failing input.

import (
	"encoding/json"
	"fmt"
	"os"
	"os/exec"
	"path/filepath"
	"strings"
	"time"
)

type ReplayResult struct {
	Reproduced bool     `json:"reproduced"`
	Inputs     []string `json:"failing_inputs,omitempty"`
	Cmd        string   `json:"cmd,omitempty"`
	Output     string   `json:"output,omitempty"`
	Note       string   `json:"note,omitempty"`
}

// harness registry: property -> (package dir relative to repo, harness file under /verif/replay)
type harnessSpec struct {
	PkgDir string
	File   string
	Run    string
}

var harnesses = map[string][]harnessSpec{}

func registerHarness(prop, pkgDir, file, run string) {
	harnesses[prop] = append(harnesses[prop], harnessSpec{pkgDir, file, run})
}

var replayCache = map[string]ReplayResult{}

func replayOnRealCode(c *CheckCtx, f *failure) ReplayResult {
	hs := harnesses[c.Prop]
	if len(hs) == 0 {
		return ReplayResult{Note: "no replay harness for this property"}
	}
	model, _ := json.Marshal(f.ob.Model)
	var agg ReplayResult
	for _, h := range hs {
		key := c.Prop + "|" + h.File + "|" + string(model) + "|" + harnessKey(f.ob.Name)
		r, ok := replayCache[key]
		if !ok {
			r = runHarness(h, f.ob.Name, string(model), c.Seed)
			replayCache[key] = r
		}
		agg.Cmd += r.Cmd + "; "
		agg.Output += r.Output
		agg.Inputs = append(agg.Inputs, r.Inputs...)
		if r.Reproduced {
			agg.Reproduced = true
		}
		agg.Note += r.Note
	}
	return agg
}

// harnessKey: obligations of the same function share one harness run when they carry no model
func harnessKey(name string) string {
	parts := strings.Split(name, "/")
	if len(parts) > 1 {
		return strings.Join(parts[:len(parts)-2], "/")
	}
	return name
}

func runHarness(h harnessSpec, obligation, model string, seed int64) ReplayResult {
	src := filepath.Join(verifDir, "replay", h.File)
	if _, err := os.Stat(src); err != nil {
		return ReplayResult{Note: "harness file missing: " + src}
	}
	tmp, err := os.MkdirTemp("", "vcreplay")
	if err != nil {
		return ReplayResult{Note: err.Error()}
	}
	defer os.RemoveAll(tmp)
	target := filepath.Join(repoDir, h.PkgDir, "zz_vc_replay_test.go")
	ov := map[string]interface{}{"Replace": map[string]string{target: src}}
	ovData, _ := json.Marshal(ov)
	ovPath := filepath.Join(tmp, "overlay.json")
	os.WriteFile(ovPath, ovData, 0o644)
	args := []string{"test", "-overlay", ovPath, "-v", "-vet=off", "-count=1", "-timeout", "120s", "-run", h.Run, "./" + h.PkgDir}
	cmd := exec.Command("go", args...)
	cmd.Dir = repoDir
	cmd.Env = append(os.Environ(), "GOFLAGS=-mod=mod", "GOPROXY=off", "GOSUMDB=off", "GOTOOLCHAIN=local",
		"VC_OBLIGATION="+obligation, "VC_MODEL="+model, fmt.Sprintf("VC_SEED=%d", seed))
	t0 := time.Now()
	out, _ := cmd.CombinedOutput()
	res := ReplayResult{Cmd: "go " + strings.Join(args, " "), Output: truncate(string(out), 6000)}
	for _, l := range strings.Split(string(out), "\n") {
		l = strings.TrimSpace(l)
		if i := strings.Index(l, "REPRO:"); i >= 0 {
			res.Reproduced = true
			if len(res.Inputs) < 10 {
				res.Inputs = append(res.Inputs, strings.TrimSpace(l[i+6:]))
			}
		}
	}
	res.Note = fmt.Sprintf("harness %s ran %.1fs. ", h.File, time.Since(t0).Seconds())
	return res
}

func runReplay(args []string) int {
	if len(args) < 1 {
		return 2
	}
	data, err := os.ReadFile(args[0])
	if err != nil {
		fmt.Fprintln(os.Stderr, err)
		return 2
	}
	var m map[string]interface{}
	if err := json.Unmarshal(data, &m); err != nil {
		fmt.Fprintln(os.Stderr, err)
		return 2
	}
	prop, _ := m["property"].(string)
	name, _ := m["obligation"].(string)
	mod := map[string]string{}
	if mm, ok := m["model"].(map[string]interface{}); ok {
		for k, v := range mm {
			mod[k] = fmt.Sprint(v)
		}
	}
	c := &CheckCtx{Prop: prop, Seed: 1}
	f := &failure{ob: &Obligation{Name: name, Model: mod}}
	res := replayOnRealCode(c, f)
	out, _ := json.MarshalIndent(res, "", " ")
	fmt.Println(string(out))
	if res.Reproduced {
		return 1
	}
	return 0
}
