package main

import (
	"fmt"
	"os"
	"sort"
	"strings"
	"time"

	"golang.org/x/tools/go/ssa"
)

// debugScanProbe prints CFG statistics of the generated scanner machine (development aid).
func debugScanProbe(args []string) int {
	w, err := loadWorld("./internal/scanner")
	if err != nil {
		fmt.Fprintln(os.Stderr, err)
		return 2
	}
	fn := w.lookupFunc(modPath+"/internal/scanner", "(*Lexer).Lex")
	if fn == nil {
		fmt.Println("no Lex")
		return 2
	}
	fmt.Printf("blocks=%d\n", len(fn.Blocks))
	cuts := scanCuts(fn, 12)
	fmt.Printf("cuts=%d\n", len(cuts))
	// region sizes
	var sizes []int
	tot := 0
	for c := range cuts {
		n := len(regionBlocks(c, cuts))
		sizes = append(sizes, n)
		tot += n
	}
	sort.Ints(sizes)
	fmt.Printf("region blocks total=%d max=%d median=%d\n", tot, sizes[len(sizes)-1], sizes[len(sizes)/2])
	fmt.Println("largest:", sizes[max(0, len(sizes)-15):])
	if len(args) > 0 {
		for c := range cuts {
			if len(regionBlocks(c, cuts)) > 200 {
				fmt.Printf("cut b%d (%s) preds=%d region=%d\n", c.Index, c.Comment, len(c.Preds), len(regionBlocks(c, cuts)))
			}
		}
	}
	return 0
}

// debugScan runs the scanner engine and prints what it finds (development aid).
func debugScan(args []string) int {
	w, err := loadWorld("./...")
	if err != nil {
		fmt.Fprintln(os.Stderr, err)
		return 2
	}
	w.registerKeySorts()
	se, err := newScanEngine(w, []string{"dbg"})
	if err != nil {
		fmt.Fprintln(os.Stderr, err)
		return 2
	}
	if err := se.instantiate(); err != nil {
		fmt.Fprintln(os.Stderr, err)
		return 2
	}
	fmt.Printf("cuts=%d entry states=%d locals=%d\n", len(se.order), len(se.entry), len(se.locals))
	if len(args) > 0 && args[0] == "states" {
		fmt.Println("entry:", w.scanEntryStates())
		fmt.Println("rest:", w.scanRestStates())
		return 0
	}
	if len(args) > 1 && args[0] == "only" {
		// one region, all candidates assumed: which edge obligations fail?
		for _, c := range se.order {
			if c.name != args[1] {
				continue
			}
			for _, d := range strings.Split(os.Getenv("VC_SCAN_DEAD"), ";") {
				for _, cd := range c.cands {
					if d != "" && cd.src == d {
						cd.alive = false
					}
				}
			}
			r := se.execRegion(c)
			if r.err != "" {
				fmt.Println("ERROR", r.err)
				return 1
			}
			only := map[int]bool{}
			for i := range r.x.Sc.Obls {
				only[i] = true
			}
			sem := make(chan struct{}, 16)
			t0 := time.Now()
			st := se.solveRegion(r, only, 2000, sem, func(o *Obligation) bool { return o.Class != "inv" })
			n := 0
			for i, o := range r.x.Sc.Obls {
				if st[i] != "unsat" {
					n++
					fmt.Printf("  %-8s %s\n", st[i], o.Name)
					if d := os.Getenv("VC_SCAN_DUMP1"); d != "" && strings.Contains(o.Name, d) {
						text := r.x.Sc.renderSingle("z3-new", 5000, i)
						for cd, en := range r.enable {
							if cd.alive {
								text = strings.Replace(text, fmt.Sprintf("(declare-fun %s () Bool)\n", en.name), fmt.Sprintf("(declare-fun %s () Bool)\n(assert %s)\n", en.name, en.name), 1)
							}
						}
						os.WriteFile("/tmp/one.smt2", []byte(text), 0o644)
					}
				}
			}
			fmt.Printf("region %s: %d obligations, %d not proved, %.1fs\n", c.name, len(r.x.Sc.Obls), n, time.Since(t0).Seconds())
		}
		return 0
	}
	t0 := time.Now()
	se.buildRegions(16)
	nb, np, no, ne, nerr := 0, 0, 0, 0, 0
	for _, c := range se.order {
		r := c.region
		nb += r.nBlocks
		np += r.nPaths
		no += len(r.safety)
		ne += len(r.edges)
		if r.err != "" {
			nerr++
			if nerr < 10 {
				fmt.Printf("region %s: OUT OF SUBSET: %s\n", c.name, r.err)
			}
		}
	}
	fmt.Printf("regions built in %.1fs: blocks=%d paths=%d safety=%d edge-obls=%d errors=%d lazy=%d\n", time.Since(t0).Seconds(), nb, np, no, ne, nerr, se.lazy)
	if len(args) > 0 && args[0] == "build" {
		cs := append([]*scanCut{}, se.order...)
		sort.Slice(cs, func(i, j int) bool { return cs[i].region.nPaths > cs[j].region.nPaths })
		for _, c := range cs[:12] {
			fmt.Printf("  region %s: blocks=%d paths=%d targets=%d obls=%d\n", c.name, c.region.nBlocks, c.region.nPaths, len(c.region.targets), len(c.region.x.Sc.Obls))
		}
		return 0
	}
	st := se.houdini(16, 1000, true)
	_ = st
	alive := 0
	for _, c := range se.order {
		for _, cd := range c.cands {
			if cd.alive {
				alive++
			}
		}
	}
	fmt.Printf("alive candidates: %d\n", alive)
	for _, n := range args {
		for _, c := range se.order {
			if c.name == n {
				fmt.Printf("cut %s:\n", n)
				for _, cd := range c.cands {
					if cd.alive {
						fmt.Printf("   %s\n", cd.src)
					}
				}
			}
		}
	}
	t1 := time.Now()
	ne, obls := se.finalRound(16, 2000)
	bad := 0
	for _, o := range obls {
		if o.Status != "unsat" {
			bad++
			fmt.Printf("  FAIL %-8s %s\n", o.Status, o.Name)
		}
	}
	fmt.Printf("final round: %d obligations (%d edge), %d not discharged, %.1fs\n", len(obls), ne, bad, time.Since(t1).Seconds())
	return 0
}

// regionBlocks: blocks reachable from cut c without passing through another cut (c included).
func regionBlocks(c *ssa.BasicBlock, cuts map[*ssa.BasicBlock]bool) []*ssa.BasicBlock {
	seen := map[*ssa.BasicBlock]bool{c: true}
	out := []*ssa.BasicBlock{c}
	stack := []*ssa.BasicBlock{c}
	for len(stack) > 0 {
		b := stack[len(stack)-1]
		stack = stack[:len(stack)-1]
		for _, s := range b.Succs {
			if cuts[s] || seen[s] {
				continue
			}
			seen[s] = true
			out = append(out, s)
			stack = append(stack, s)
		}
	}
	return out
}

// scanCuts chooses the cut points of a goto-structured function: the entry block, every target of a
// retreating edge of a depth-first search (so every cycle contains a cut), and every join block that
// is not a small local join (all its predecessors reached from its immediate dominator within
// `local` blocks without crossing a cut).
func scanCuts(fn *ssa.Function, local int) map[*ssa.BasicBlock]bool {
	cuts := map[*ssa.BasicBlock]bool{fn.Blocks[0]: true}
	// retreating edges
	state := map[*ssa.BasicBlock]int{}
	type fr struct {
		b *ssa.BasicBlock
		i int
	}
	st := []fr{{fn.Blocks[0], 0}}
	state[fn.Blocks[0]] = 1
	for len(st) > 0 {
		f := &st[len(st)-1]
		if f.i < len(f.b.Succs) {
			s := f.b.Succs[f.i]
			f.i++
			switch state[s] {
			case 0:
				state[s] = 1
				st = append(st, fr{s, 0})
			case 1:
				cuts[s] = true
			}
			continue
		}
		state[f.b] = 2
		st = st[:len(st)-1]
	}
	// non-local joins
	for _, b := range fn.Blocks {
		if len(b.Preds) < 2 || cuts[b] {
			continue
		}
		d := b.Idom()
		if d == nil {
			cuts[b] = true
			continue
		}
		// blocks between d and b: backwards from b until d
		seen := map[*ssa.BasicBlock]bool{b: true}
		stack := []*ssa.BasicBlock{b}
		n := 0
		ok := true
		for len(stack) > 0 && ok {
			x := stack[len(stack)-1]
			stack = stack[:len(stack)-1]
			for _, p := range x.Preds {
				if p == d || seen[p] {
					continue
				}
				if cuts[p] {
					ok = false
					break
				}
				seen[p] = true
				n++
				if n > local {
					ok = false
					break
				}
				stack = append(stack, p)
			}
		}
		if !ok {
			cuts[b] = true
		}
	}
	return cuts
}
