package main

// Contract files: comment-only Go files named zz_contracts_verif.go (build tag verif)
// inside the package under contract. Lines start with "//@".

import (
	"fmt"
	"os"
	"path/filepath"
	"strconv"
	"strings"
)

type CExpr struct {
	Kind string // int, str, ident, sel, index, slice, call, unary, binary, forall, exists, nil, bool
	Op   string
	Name string
	IVal int64
	SVal string
	Args []*CExpr
	Vars []string
	src  string
}

func (e *CExpr) String() string { return e.src }

type LoopSpec struct {
	Invariants []*CExpr
	Grounds    []*CExpr
	Decreases  *CExpr
}

type GhostUpdate struct {
	Loc  *CExpr
	Expr *CExpr
}

type Contract struct {
	Key        string // function key, e.g. "(*Pool).Get" or "NewPool", package-relative
	Pkg        string // package path
	Requires   []*CExpr
	Ensures    []*CExpr
	AssumedEns []*CExpr // postconditions callers may rely on but the body is not checked against (listed as assumptions)
	Modifies   []*CExpr
	HasMod     bool // a modifies clause (possibly empty: "modifies nothing") was given
	GhostRet   []GhostUpdate
	Loops      map[int]*LoopSpec
	Props      []string
	Trusted    bool
	Pure       bool
	Inline     bool
	File       string
	Line       int
	Notes      []string
	AtCalls    []AtCall
}

type AtCall struct {
	Callee string
	Expr   *CExpr
}

type Lemma struct {
	Name string
	Expr *CExpr
}

type Pred struct {
	Name   string
	Params []string
	Body   *CExpr
}

type GhostField struct {
	Type string // struct type name (package-relative)
	Name string
	Sort string // int | bool | set
}

type ContractFile struct {
	Pkg       string
	Contracts map[string]*Contract
	Preds     map[string]*Pred
	Ghosts    []GhostField
	Raw       []string // all //@ lines (for assumption scan)
	Invariants []*CExpr
	Grounds    []*CExpr
	Lemmas    []Lemma
	Directives []string // engine-specific lines (frame/trace/gram tables), kept raw
}

func loadContractFile(pkgPath, dir string) (*ContractFile, error) {
	cf := &ContractFile{Pkg: pkgPath, Contracts: map[string]*Contract{}, Preds: map[string]*Pred{}}
	path := filepath.Join(dir, "zz_contracts_verif.go")
	data, err := os.ReadFile(path)
	if err != nil {
		if os.IsNotExist(err) {
			return cf, nil
		}
		return nil, err
	}
	var cur *Contract
	for ln, line := range strings.Split(string(data), "\n") {
		t := strings.TrimSpace(line)
		if !strings.HasPrefix(t, "//@") {
			continue
		}
		body := strings.TrimSpace(t[3:])
		if body == "" || strings.HasPrefix(body, "#") {
			continue
		}
		cf.Raw = append(cf.Raw, body)
		fail := func(e error) error {
			return fmt.Errorf("%s:%d: %v (in %q)", path, ln+1, e, body)
		}
		word, rest := splitWord(body)
		switch word {
		case "pred":
			// pred name(a, b) := expr
			i := strings.Index(rest, ":=")
			if i < 0 {
				return nil, fail(fmt.Errorf("pred without :="))
			}
			head := strings.TrimSpace(rest[:i])
			lp := strings.Index(head, "(")
			name := strings.TrimSpace(head[:lp])
			ps := strings.TrimSuffix(strings.TrimSpace(head[lp+1:]), ")")
			var params []string
			for _, p := range strings.Split(ps, ",") {
				p = strings.TrimSpace(p)
				if p != "" {
					params = append(params, p)
				}
			}
			e, err := parseCExpr(rest[i+2:])
			if err != nil {
				return nil, fail(err)
			}
			cf.Preds[name] = &Pred{Name: name, Params: params, Body: e}
			cur = nil
		case "ghost":
			// ghost field Type.name sort
			w2, r2 := splitWord(rest)
			if w2 != "field" {
				return nil, fail(fmt.Errorf("expected 'ghost field'"))
			}
			tn, srt := splitWord(r2)
			dot := strings.LastIndex(tn, ".")
			cf.Ghosts = append(cf.Ghosts, GhostField{Type: tn[:dot], Name: tn[dot+1:], Sort: strings.TrimSpace(srt)})
			cur = nil
		case "invariant":
			e, err := parseCExpr(rest)
			if err != nil {
				return nil, fail(err)
			}
			cf.Invariants = append(cf.Invariants, e)
			cur = nil
		case "ground":
			e, err := parseCExpr(rest)
			if err != nil {
				return nil, fail(err)
			}
			cf.Grounds = append(cf.Grounds, e)
			cur = nil
		case "lemma":
			i := strings.Index(rest, ":")
			if i < 0 {
				return nil, fail(fmt.Errorf("lemma without name:"))
			}
			e, err := parseCExpr(rest[i+1:])
			if err != nil {
				return nil, fail(err)
			}
			cf.Lemmas = append(cf.Lemmas, Lemma{strings.TrimSpace(rest[:i]), e})
			cur = nil
		case "frame", "trace", "gram", "scan", "table", "drv":
			cf.Directives = append(cf.Directives, body)
			cur = nil
		case "func":
			cur = &Contract{Key: strings.TrimSpace(rest), Pkg: pkgPath, Loops: map[int]*LoopSpec{}, File: path, Line: ln + 1}
			cf.Contracts[cur.Key] = cur
		default:
			if cur == nil {
				return nil, fail(fmt.Errorf("clause outside func"))
			}
			switch word {
			case "requires", "ensures":
				e, err := parseCExpr(rest)
				if err != nil {
					return nil, fail(err)
				}
				if word == "requires" {
					cur.Requires = append(cur.Requires, e)
				} else {
					cur.Ensures = append(cur.Ensures, e)
				}
			case "assume-ensures":
				e, err := parseCExpr(rest)
				if err != nil {
					return nil, fail(err)
				}
				cur.AssumedEns = append(cur.AssumedEns, e)
			case "modifies":
				cur.HasMod = true
				if strings.TrimSpace(rest) == "nothing" {
					break
				}
				for _, part := range splitTop(rest, ',') {
					e, err := parseCExpr(part)
					if err != nil {
						return nil, fail(err)
					}
					cur.Modifies = append(cur.Modifies, e)
				}
			case "ghost-return":
				i := strings.Index(rest, ":=")
				if i < 0 {
					return nil, fail(fmt.Errorf("ghost-return without :="))
				}
				l, err := parseCExpr(rest[:i])
				if err != nil {
					return nil, fail(err)
				}
				r, err := parseCExpr(rest[i+2:])
				if err != nil {
					return nil, fail(err)
				}
				cur.GhostRet = append(cur.GhostRet, GhostUpdate{l, r})
			case "loop":
				ns, r2 := splitWord(rest)
				n, err := strconv.Atoi(ns)
				if err != nil {
					return nil, fail(err)
				}
				kind, r3 := splitWord(r2)
				e, err := parseCExpr(r3)
				if err != nil {
					return nil, fail(err)
				}
				ls := cur.Loops[n]
				if ls == nil {
					ls = &LoopSpec{}
					cur.Loops[n] = ls
				}
				switch kind {
				case "invariant":
					ls.Invariants = append(ls.Invariants, e)
				case "decreases":
					ls.Decreases = e
				default:
					return nil, fail(fmt.Errorf("unknown loop clause %s", kind))
				}
			case "at-call":
				callee, r2 := splitWord(rest)
				kw, r3 := splitWord(r2)
				if kw != "assert" {
					return nil, fail(fmt.Errorf("at-call <callee> assert <expr>"))
				}
				e, err := parseCExpr(r3)
				if err != nil {
					return nil, fail(err)
				}
				cur.AtCalls = append(cur.AtCalls, AtCall{callee, e})
			case "props":
				for _, p := range strings.Split(rest, ",") {
					cur.Props = append(cur.Props, strings.TrimSpace(p))
				}
			case "trusted":
				cur.Trusted = true
				cur.Notes = append(cur.Notes, "trusted: "+rest)
			case "pure":
				cur.Pure = true
				cur.HasMod = true
			case "inline":
				cur.Inline = true
			case "note":
				cur.Notes = append(cur.Notes, rest)
			default:
				return nil, fail(fmt.Errorf("unknown clause %q", word))
			}
		}
	}
	return cf, nil
}

func splitWord(s string) (string, string) {
	s = strings.TrimSpace(s)
	i := strings.IndexAny(s, " \t")
	if i < 0 {
		return s, ""
	}
	return s[:i], strings.TrimSpace(s[i:])
}

func splitTop(s string, sep byte) []string {
	var out []string
	depth := 0
	start := 0
	for i := 0; i < len(s); i++ {
		switch s[i] {
		case '(', '[':
			depth++
		case ')', ']':
			depth--
		case sep:
			if depth == 0 {
				out = append(out, s[start:i])
				start = i + 1
			}
		}
	}
	out = append(out, s[start:])
	return out
}

// ---------------------------------------------------------------------------
// expression parser

type cparser struct {
	toks []ctok
	pos  int
	src  string
}

type ctok struct {
	kind string // int, str, char, ident, op, eof
	text string
	off  int
}

func clex(s string) ([]ctok, error) {
	var toks []ctok
	i := 0
	for i < len(s) {
		c := s[i]
		switch {
		case c == ' ' || c == '\t':
			i++
		case c >= '0' && c <= '9':
			j := i
			for j < len(s) && (s[j] >= '0' && s[j] <= '9' || s[j] == 'x' || (s[j] >= 'a' && s[j] <= 'f') || (s[j] >= 'A' && s[j] <= 'F')) {
				j++
			}
			toks = append(toks, ctok{"int", s[i:j], i})
			i = j
		case c == '_' || (c >= 'a' && c <= 'z') || (c >= 'A' && c <= 'Z'):
			j := i
			for j < len(s) && (s[j] == '_' || (s[j] >= 'a' && s[j] <= 'z') || (s[j] >= 'A' && s[j] <= 'Z') || (s[j] >= '0' && s[j] <= '9')) {
				j++
			}
			toks = append(toks, ctok{"ident", s[i:j], i})
			i = j
		case c == '"':
			j := i + 1
			for j < len(s) && s[j] != '"' {
				if s[j] == '\\' {
					j++
				}
				j++
			}
			if j >= len(s) {
				return nil, fmt.Errorf("unterminated string")
			}
			toks = append(toks, ctok{"str", s[i : j+1], i})
			i = j + 1
		case c == '\'':
			j := i + 1
			for j < len(s) && s[j] != '\'' {
				if s[j] == '\\' {
					j++
				}
				j++
			}
			if j >= len(s) {
				return nil, fmt.Errorf("unterminated char")
			}
			toks = append(toks, ctok{"char", s[i : j+1], i})
			i = j + 1
		default:
			ops := []string{"<==>", "==>", "::", ":=", "==", "!=", "<=", ">=", "&&", "||", "<", ">", "+", "-", "*", "/", "%", "!", "(", ")", "[", "]", ".", ",", ":", "&"}
			found := false
			for _, op := range ops {
				if strings.HasPrefix(s[i:], op) {
					toks = append(toks, ctok{"op", op, i})
					i += len(op)
					found = true
					break
				}
			}
			if !found {
				return nil, fmt.Errorf("bad character %q at %d", c, i)
			}
		}
	}
	toks = append(toks, ctok{"eof", "", len(s)})
	return toks, nil
}

func parseCExpr(s string) (*CExpr, error) {
	s = strings.TrimSpace(s)
	toks, err := clex(s)
	if err != nil {
		return nil, err
	}
	p := &cparser{toks: toks, src: s}
	var e *CExpr
	func() {
		defer func() {
			if r := recover(); r != nil {
				if pe, ok := r.(parseErr); ok {
					err = pe
					return
				}
				panic(r)
			}
		}()
		e = p.imp()
		if p.peek().kind != "eof" {
			p.fail("trailing input at %q", p.peek().text)
		}
	}()
	if err != nil {
		return nil, err
	}
	return e, nil
}

type parseErr struct{ error }

func (p *cparser) fail(f string, a ...interface{}) {
	panic(parseErr{fmt.Errorf(f, a...)})
}
func (p *cparser) peek() ctok { return p.toks[p.pos] }
func (p *cparser) next() ctok { t := p.toks[p.pos]; p.pos++; return t }
func (p *cparser) isOp(op string) bool {
	t := p.peek()
	return t.kind == "op" && t.text == op
}
func (p *cparser) accept(op string) bool {
	if p.isOp(op) {
		p.pos++
		return true
	}
	return false
}
func (p *cparser) expect(op string) {
	if !p.accept(op) {
		p.fail("expected %q, found %q", op, p.peek().text)
	}
}
func (p *cparser) mk(e *CExpr, start int) *CExpr {
	end := p.toks[p.pos].off
	if end > len(p.src) {
		end = len(p.src)
	}
	e.src = strings.TrimSpace(p.src[start:end])
	return e
}

func (p *cparser) imp() *CExpr {
	start := p.peek().off
	l := p.or()
	if p.accept("==>") {
		r := p.imp()
		return p.mk(&CExpr{Kind: "binary", Op: "==>", Args: []*CExpr{l, r}}, start)
	}
	if p.accept("<==>") {
		r := p.imp()
		return p.mk(&CExpr{Kind: "binary", Op: "<==>", Args: []*CExpr{l, r}}, start)
	}
	return l
}
func (p *cparser) or() *CExpr {
	start := p.peek().off
	l := p.and()
	for p.accept("||") {
		r := p.and()
		l = p.mk(&CExpr{Kind: "binary", Op: "||", Args: []*CExpr{l, r}}, start)
	}
	return l
}
func (p *cparser) and() *CExpr {
	start := p.peek().off
	l := p.cmp()
	for p.accept("&&") {
		r := p.cmp()
		l = p.mk(&CExpr{Kind: "binary", Op: "&&", Args: []*CExpr{l, r}}, start)
	}
	return l
}
func (p *cparser) cmp() *CExpr {
	start := p.peek().off
	l := p.add()
	var res *CExpr
	for {
		t := p.peek()
		if t.kind == "op" && (t.text == "==" || t.text == "!=" || t.text == "<" || t.text == "<=" || t.text == ">" || t.text == ">=") {
			p.next()
			r := p.add()
			c := p.mk(&CExpr{Kind: "binary", Op: t.text, Args: []*CExpr{l, r}}, start)
			if res == nil {
				res = c
			} else {
				res = p.mk(&CExpr{Kind: "binary", Op: "&&", Args: []*CExpr{res, c}}, start)
			}
			l = r
			continue
		}
		break
	}
	if res != nil {
		return res
	}
	return l
}
func (p *cparser) add() *CExpr {
	start := p.peek().off
	l := p.mul()
	for {
		if p.accept("+") {
			r := p.mul()
			l = p.mk(&CExpr{Kind: "binary", Op: "+", Args: []*CExpr{l, r}}, start)
		} else if p.accept("-") {
			r := p.mul()
			l = p.mk(&CExpr{Kind: "binary", Op: "-", Args: []*CExpr{l, r}}, start)
		} else {
			return l
		}
	}
}
func (p *cparser) mul() *CExpr {
	start := p.peek().off
	l := p.unary()
	for {
		if p.accept("*") {
			r := p.unary()
			l = p.mk(&CExpr{Kind: "binary", Op: "*", Args: []*CExpr{l, r}}, start)
		} else if p.accept("/") {
			r := p.unary()
			l = p.mk(&CExpr{Kind: "binary", Op: "/", Args: []*CExpr{l, r}}, start)
		} else if p.accept("%") {
			r := p.unary()
			l = p.mk(&CExpr{Kind: "binary", Op: "%", Args: []*CExpr{l, r}}, start)
		} else {
			return l
		}
	}
}
func (p *cparser) unary() *CExpr {
	start := p.peek().off
	if p.accept("!") {
		x := p.unary()
		return p.mk(&CExpr{Kind: "unary", Op: "!", Args: []*CExpr{x}}, start)
	}
	if p.accept("-") {
		x := p.unary()
		return p.mk(&CExpr{Kind: "unary", Op: "-", Args: []*CExpr{x}}, start)
	}
	return p.postfix()
}
func (p *cparser) postfix() *CExpr {
	start := p.peek().off
	x := p.primary()
	for {
		switch {
		case p.accept("."):
			t := p.next()
			if t.kind != "ident" {
				p.fail("expected field name")
			}
			x = p.mk(&CExpr{Kind: "sel", Name: t.text, Args: []*CExpr{x}}, start)
		case p.accept("["):
			if p.accept(":") {
				hi := p.imp()
				p.expect("]")
				x = p.mk(&CExpr{Kind: "slice", Args: []*CExpr{x, nil, hi}}, start)
				break
			}
			i := p.imp()
			if p.accept(":") {
				var hi *CExpr
				if !p.isOp("]") {
					hi = p.imp()
				}
				p.expect("]")
				x = p.mk(&CExpr{Kind: "slice", Args: []*CExpr{x, i, hi}}, start)
				break
			}
			p.expect("]")
			x = p.mk(&CExpr{Kind: "index", Args: []*CExpr{x, i}}, start)
		case p.isOp("(") && x.Kind == "ident":
			p.next()
			var args []*CExpr
			for !p.isOp(")") {
				args = append(args, p.imp())
				if !p.accept(",") {
					break
				}
			}
			p.expect(")")
			x = p.mk(&CExpr{Kind: "call", Name: x.Name, Args: args}, start)
		default:
			return x
		}
	}
}
func (p *cparser) primary() *CExpr {
	start := p.peek().off
	t := p.next()
	switch t.kind {
	case "int":
		v, err := strconv.ParseInt(t.text, 0, 64)
		if err != nil {
			p.fail("bad int %s", t.text)
		}
		return p.mk(&CExpr{Kind: "int", IVal: v}, start)
	case "char":
		r, _, _, err := strconv.UnquoteChar(t.text[1:len(t.text)-1], '\'')
		if err != nil {
			p.fail("bad char %s", t.text)
		}
		return p.mk(&CExpr{Kind: "int", IVal: int64(r)}, start)
	case "str":
		sv, err := strconv.Unquote(t.text)
		if err != nil {
			p.fail("bad string %s", t.text)
		}
		return p.mk(&CExpr{Kind: "str", SVal: sv}, start)
	case "ident":
		switch t.text {
		case "true":
			return p.mk(&CExpr{Kind: "bool", IVal: 1}, start)
		case "false":
			return p.mk(&CExpr{Kind: "bool", IVal: 0}, start)
		case "nil":
			return p.mk(&CExpr{Kind: "nil"}, start)
		case "forall", "exists":
			var vars []string
			for {
				v := p.next()
				if v.kind != "ident" {
					p.fail("expected bound variable")
				}
				vars = append(vars, v.text)
				if !p.accept(",") {
					break
				}
			}
			p.expect("::")
			body := p.imp()
			return p.mk(&CExpr{Kind: t.text, Vars: vars, Args: []*CExpr{body}}, start)
		}
		return p.mk(&CExpr{Kind: "ident", Name: t.text}, start)
	case "op":
		if t.text == "(" {
			e := p.imp()
			p.expect(")")
			return e
		}
	}
	p.fail("unexpected %q", t.text)
	return nil
}
