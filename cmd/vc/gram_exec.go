package main

// E-GRAM, part 2: symbolic execution of one grammar action (SSA region) over an abstract heap.
//
// Inputs $1..$n are symbolic values constrained by the contract of their grammar symbol
// (terminals: non-nil tokens; non-terminals: the inferred non-terminal contract). The action is
// executed path by path; undetermined branches (nil tests, type tests, opaque conditions) are
// decision points that are enumerated exhaustively. The result of a path is the abstract heap
// (objects created by the action, fields written on input objects), the value left in $$ and
// the shape failures met on the way (failed type assertion, nil dereference, call through a nil
// function value, use of a stale $$).

import (
	"fmt"
	"go/constant"
	"go/token"
	"go/types"
	"sort"
	"strings"

	"golang.org/x/tools/go/ssa"
)

// ---------------------------------------------------------------------------
// non-terminal contracts

type ntAlt struct {
	Nil      bool
	Any      bool         // non-nil node of unknown dynamic type
	T        *types.Named // dynamic struct type (the value is *T)
	Empty    bool         // every pointer, interface and slice field is nil (a bare &T{})
	NilF     map[string]bool
	NonNilF  map[string]bool
	Rel      map[string]string // "Items/SeparatorTkns" -> "empty" | "eq-1" | "eq" | "opaque" | "other"
	PosSet   bool
	NonEmpty map[string]bool      // list fields known to be non-empty
	ElemAlts map[string][]*ntAlt // possible shapes of the elements of a vertex-list field (nil = unknown)
	ChildAlts map[string][]*ntAlt // possible shapes of the value of a vertex field (nil = unknown); carriers only
}

func (a *ntAlt) key() string {
	switch {
	case a.Nil:
		return "nil"
	case a.Any:
		return "any"
	case a.Empty:
		return typeName(a.T) + ":empty"
	}
	// variants of one type are kept apart by the set of token slots known to be present, so that
	// e.g. the brace form and the alternative-syntax form of a statement are separate shapes
	var toks []string
	if st, ok := a.T.Underlying().(*types.Struct); ok {
		for i := 0; i < st.NumFields(); i++ {
			f := st.Field(i)
			if a.NonNilF[f.Name()] && classifySlot(f.Type()) == "token" {
				toks = append(toks, f.Name())
			}
		}
	}
	if len(toks) == 0 {
		return typeName(a.T)
	}
	return typeName(a.T) + ":" + strings.Join(toks, "+")
}

func (a *ntAlt) String() string {
	if a.Nil {
		return "nil"
	}
	if a.Any {
		return fmt.Sprintf("any(pos=%v)", a.PosSet)
	}
	var nf []string
	for f := range a.NilF {
		nf = append(nf, f)
	}
	sort.Strings(nf)
	var rel []string
	for k, v := range a.Rel {
		rel = append(rel, k+":"+v)
	}
	sort.Strings(rel)
	var ne []string
	for k := range a.NonEmpty {
		ne = append(ne, k)
	}
	sort.Strings(ne)
	var nn []string
	for k := range a.NonNilF {
		nn = append(nn, k)
	}
	sort.Strings(nn)
	var ea []string
	for k, v := range a.ElemAlts {
		var ks []string
		for _, e := range v {
			ks = append(ks, e.key())
		}
		sort.Strings(ks)
		ea = append(ea, k+"∈{"+strings.Join(ks, ",")+"}")
	}
	sort.Strings(ea)
	if a.Empty {
		return fmt.Sprintf("*%s{} (all slots nil)", typeName(a.T))
	}
	return fmt.Sprintf("*%s{nil:%s nonnil:%s rel:%s nonempty:%s elems:%s pos:%v}", typeName(a.T), strings.Join(nf, ","), strings.Join(nn, ","), strings.Join(rel, ","), strings.Join(ne, ","), strings.Join(ea, ","), a.PosSet)
}

type ntInfo struct {
	Kind string // node | token | list
	Alts []*ntAlt
	// token
	MaybeNil bool
	// list
	ListNil, ListEmpty, ListNonEmpty bool // possible shapes seen
	ElemsNonNil, ElemsPos           bool
	Seen                            bool
	ElemAlts                        []*ntAlt // list: possible shapes of the elements (nil = unknown)
	ElemAltsSet                     bool
	FirstAlts                       []*ntAlt // list: possible shapes of element 0 (nil = see ElemAlts)
	firstDead                       bool
}

func (n *ntInfo) String() string {
	switch n.Kind {
	case "token":
		return fmt.Sprintf("token(maybeNil=%v)", n.MaybeNil)
	case "list":
		return fmt.Sprintf("list(nil=%v empty=%v nonempty=%v elemsNonNil=%v elemsPos=%v)", n.ListNil, n.ListEmpty, n.ListNonEmpty, n.ElemsNonNil, n.ElemsPos)
	}
	var as []string
	for _, a := range n.Alts {
		as = append(as, a.String())
	}
	sort.Strings(as)
	return "node[" + strings.Join(as, " | ") + "]"
}

// ---------------------------------------------------------------------------
// abstract values

type gv interface{}

type gNil struct{}
type gStale struct{ Why string }
type gInt struct{ V int64 }
type gBool struct{ V bool }
type gStr struct{ V string }
type gOpaque struct {
	Desc string
}
type gCond struct{ Key string } // undetermined boolean
type gLen struct {
	Base *gObj // len(opaque list) + Add
	Add  int
}
type gBytes struct {
	Obj   *gObj
	Field string
}
type gFuncV struct{ Obj *gObj }

// gBytesCat: a byte slice built by concatenating literal text and token values
type gBytesCat struct{ Parts []gv }
type gTuple []gv

// gRef: pointer to an object (struct, token, position, opaque list base ...)
type gRef struct{ Obj *gObj }

// gStructVal: the contents of a position object read as a struct value
type gStructVal struct{ Of *gObj }

// gList: a slice value: optional opaque base plus elements appended/literal
type gList struct {
	Pre    []gv  // elements in front of the opaque part
	Base   *gObj // opaque part (an input list or an old list field); nil = none
	App    []gv
	NonNil bool // known to be a non-nil slice (literal, make, or result of append)
	Tok    bool // slice of tokens (else of vertices)
}

type gArr struct {
	Elems []gv
	ElemT types.Type
}

type gAddr struct {
	Kind  string // dollar | dollarf | yyval | field | elem | cell | pos
	K     int
	Field string
	Obj   *gObj
	Arr   *gArr
	Cell  *gCell
}

type gCell struct{ V gv }

type gPosV struct {
	Fn     string
	Args   []gv
	ArgPos []gv // for node arguments: the value of their Position field at the time of the call (nil: untouched)
}

type gObj struct {
	ID      int
	Kind    string // node | token | pos | list | toklist | parser | func | other
	T       *types.Named
	Origin  string // "$3", "new#1(ast.StmtIf)", "old($5.Stmt)", "cur"
	Input   bool   // existed before the action
	Dollar  int    // >0: this object is the value of $Dollar
	Parent  *gObj  // for old(...) children
	PField  string
	Alts    []*ntAlt // possible shapes (input nodes); nil = unknown
	Alt     *ntAlt   // chosen shape
	MaybeNil bool
	Fields  map[string]gv // written in this action
	Pre     map[string]gv // materialised pre-state values
	Order   []string      // write order
	Opened  bool          // some field was read or written by the action
	Content gv            // pos objects: gPosV or nil (opaque)
	// list bases
	ElemAlts []*ntAlt
	FirstAlts []*ntAlt
	LNil, LEmpty, LNonEmpty bool
	ElemsNonNil, ElemsPos   bool
	NewIdx  int
	ListElemOf int // >0: element of the explicit (bounded) list $ListElemOf
}

func (o *gObj) String() string { return o.Origin }

// ---------------------------------------------------------------------------
// one path execution

type needDecision struct {
	Key string
	N   int
	Lab []string
}

type gFail struct {
	Class string // assert | nil | nilfunc | stale | subset
	Msg   string
	Pos   token.Pos
}

type gRun struct {
	gp      *gramParser
	rule    *yRule
	nts     map[string]*ntInfo
	dec     map[string]int
	decLog  []string
	env     map[ssa.Value]gv
	objs    []*gObj
	nextID  int
	newCnt  int
	parser  *gObj
	cur     *gObj
	yyval   map[string]gv
	yyvalW  map[string]bool
	dollars []map[string]gv // 1-based
	dollars0 []map[string]gv // the inputs as they were at entry
	dollarO []*gObj
	fails   []gFail
	cbCalls int
	rootSet gv
	steps   int
	facts   map[string]bool
	lenEq   map[int]int // opaque list object id -> known length
	bounded bool        // some input list was enumerated up to gramListBound elements
	inlineDepth int
	cbSites map[*ssa.Call]bool // error-reporting call sites executed on this path
}

const gramListBound = 2

func (r *gRun) fail(class string, pos token.Pos, f string, a ...interface{}) {
	r.fails = append(r.fails, gFail{class, fmt.Sprintf(f, a...), pos})
}

type gAbort struct{ Why string }

func (r *gRun) decide(key string, n int, labels []string) int {
	if c, ok := r.dec[key]; ok {
		return c
	}
	panic(needDecision{key, n, labels})
}

func (r *gRun) newObj(kind, origin string) *gObj {
	r.nextID++
	o := &gObj{ID: r.nextID, Kind: kind, Origin: origin, Fields: map[string]gv{}, Pre: map[string]gv{}}
	r.objs = append(r.objs, o)
	return o
}

func namedOf(t types.Type) *types.Named {
	if p, ok := t.(*types.Pointer); ok {
		t = p.Elem()
	}
	n, _ := t.(*types.Named)
	return n
}

func (r *gRun) symKind(sym string) string {
	if r.gp.G.Term[sym] {
		return "token"
	}
	if t := r.gp.G.Type[sym]; t != "" {
		return t
	}
	return ""
}

// setupInputs creates the symbolic inputs $1..$n from the contracts of the symbols.
func (r *gRun) setupInputs() bool {
	n := len(r.rule.RHS)
	r.dollars = make([]map[string]gv, n+1)
	r.dollarO = make([]*gObj, n+1)
	for i := 1; i <= n; i++ {
		sym := r.rule.RHS[i-1]
		slot := map[string]gv{"node": gStale{"$" + fmt.Sprint(i) + ".node is not the union member of " + sym}, "token": gStale{"$" + fmt.Sprint(i) + ".token is not the union member of " + sym}, "list": gStale{"$" + fmt.Sprint(i) + ".list is not the union member of " + sym}}
		r.dollars[i] = slot
		if sym == "error" {
			continue
		}
		kind := r.symKind(sym)
		origin := fmt.Sprintf("$%d", i)
		switch kind {
		case "token":
			o := r.newObj("token", origin)
			o.Input, o.Dollar = true, i
			if !r.gp.G.Term[sym] {
				ni := r.nts[sym]
				if ni == nil || !ni.Seen {
					return false
				}
				o.MaybeNil = ni.MaybeNil
			}
			slot["token"] = gRef{o}
			r.dollarO[i] = o
		case "node":
			ni := r.nts[sym]
			if ni == nil || !ni.Seen || len(ni.Alts) == 0 {
				return false
			}
			o := r.newObj("node", origin)
			o.Input, o.Dollar = true, i
			o.Alts = ni.Alts
			onlyNil := true
			for _, a := range ni.Alts {
				if a.Nil {
					o.MaybeNil = true
				} else {
					onlyNil = false
				}
			}
			if onlyNil {
				slot["node"] = gNil{}
			} else {
				slot["node"] = gRef{o}
			}
			r.dollarO[i] = o
		case "list":
			ni := r.nts[sym]
			if ni == nil || !ni.Seen {
				return false
			}
			if r.gp.Explicit[sym] {
				// bounded: the list is enumerated element by element up to gramListBound elements
				var choices []int // -1 = nil, 0 = empty non-nil, k = k elements
				var labs []string
				if ni.ListNil {
					choices, labs = append(choices, -1), append(labs, origin+"=nil")
				}
				if ni.ListEmpty {
					choices, labs = append(choices, 0), append(labs, "len("+origin+")=0")
				}
				if ni.ListNonEmpty {
					for k := 1; k <= gramListBound; k++ {
						choices, labs = append(choices, k), append(labs, fmt.Sprintf("len(%s)=%d", origin, k))
					}
				}
				if len(choices) == 0 {
					return false
				}
				if ni.ListNonEmpty && !ni.ElemAltsSet {
					return false // element shapes not computed yet (earlier fixpoint round)
				}
				c := 0
				if len(choices) > 1 {
					c = r.decide("shape:"+origin, len(choices), labs)
				}
				n := choices[c]
				if n < 0 {
					slot["list"] = gNil{}
					continue
				}
				l := &gList{NonNil: true}
				for k := 0; k < n; k++ {
					e := r.newObj("node", fmt.Sprintf("%s[%d]", origin, k))
					e.Input, e.Dollar = true, 0
					e.MaybeNil = !ni.ElemsNonNil
					e.Alts = ni.ElemAlts
					if k == 0 && ni.FirstAlts != nil {
						e.Alts = ni.FirstAlts
					}
					e.ListElemOf = i
					l.App = append(l.App, gRef{e})
				}
				slot["list"] = l
				r.bounded = true
				continue
			}
			o := r.newObj("list", origin)
			o.Input, o.Dollar = true, i
			o.LNil, o.LEmpty, o.LNonEmpty = ni.ListNil, ni.ListEmpty, ni.ListNonEmpty
			o.ElemsNonNil, o.ElemsPos = ni.ElemsNonNil, ni.ElemsPos
			o.ElemAlts = ni.ElemAlts
			o.FirstAlts = ni.FirstAlts
			slot["list"] = &gList{Base: o}
			r.dollarO[i] = o
		case "":
			// a symbol without a union member (e.g. backup_doc_comment) carries no value
		default:
			return false
		}
	}
	r.dollars0 = make([]map[string]gv, n+1)
	for i := 1; i <= n; i++ {
		r.dollars0[i] = map[string]gv{}
		for k, v := range r.dollars[i] {
			r.dollars0[i][k] = v
		}
	}
	// $$ defaults to the whole slot of $1; with an empty right-hand side it is a stale stack slot
	r.yyval = map[string]gv{}
	r.yyvalW = map[string]bool{}
	for _, f := range []string{"node", "token", "list"} {
		if n >= 1 {
			r.yyval[f] = r.dollars[1][f]
		} else {
			r.yyval[f] = gStale{"$$ is a stale stack slot (empty right-hand side) and the action did not assign it"}
		}
	}
	return true
}

func (r *gRun) parserObj() *gObj {
	if r.parser == nil {
		r.parser = r.newObj("parser", "parser")
		r.parser.Input = true
		r.parser.T = r.gp.ParserT
		r.cur = r.newObj("token", "cur")
		r.cur.Input = true
	}
	return r.parser
}

// choose the shape of an input node (decision point)
func (r *gRun) chooseAlt(o *gObj) *ntAlt {
	if o.Alt != nil {
		return o.Alt
	}
	if o.Alts == nil {
		return nil
	}
	var cands []*ntAlt
	for _, a := range o.Alts {
		if a.Nil {
			if nilDec, ok := r.facts[fmt.Sprintf("nil:%d", o.ID)]; ok && !nilDec {
				continue
			}
		} else if nilDec, ok := r.facts[fmt.Sprintf("nil:%d", o.ID)]; ok && nilDec {
			continue
		}
		cands = append(cands, a)
	}
	if len(cands) == 0 {
		return nil
	}
	c := 0
	if len(cands) > 1 {
		var labs []string
		for _, a := range cands {
			labs = append(labs, a.key())
		}
		c = r.decide(fmt.Sprintf("alt:%s", o.Origin), len(cands), labs)
	}
	o.Alt = cands[c]
	if o.Alt.Nil {
		r.facts[fmt.Sprintf("nil:%d", o.ID)] = true
	} else {
		r.facts[fmt.Sprintf("nil:%d", o.ID)] = false
		o.T = o.Alt.T
	}
	return o.Alt
}

// isNil decides whether a reference is nil on this path (decision point when undetermined).
func (r *gRun) isNil(v gv) bool {
	switch x := v.(type) {
	case gNil:
		return true
	case gRef:
		o := x.Obj
		if !o.MaybeNil {
			return false
		}
		k := fmt.Sprintf("nil:%d", o.ID)
		if d, ok := r.facts[k]; ok {
			return d
		}
		if o.Alt != nil {
			return o.Alt.Nil
		}
		c := r.decide("nil:"+o.Origin, 2, []string{o.Origin + "==nil", o.Origin + "!=nil"})
		r.facts[k] = c == 0
		return c == 0
	case *gList:
		if x.NonNil || len(x.App) > 0 || len(x.Pre) > 0 {
			return false
		}
		if x.Base == nil {
			return true
		}
		b := x.Base
		if !b.LNil {
			return false
		}
		if d, ok := r.facts[fmt.Sprintf("lempty:%d", b.ID)]; ok && !d {
			return false
		}
		if !b.LEmpty && !b.LNonEmpty {
			return true
		}
		k := fmt.Sprintf("lnil:%d", b.ID)
		if d, ok := r.facts[k]; ok {
			return d
		}
		c := r.decide("nil:"+b.Origin, 2, []string{b.Origin + "==nil", b.Origin + "!=nil"})
		r.facts[k] = c == 0
		return c == 0
	case gFuncV:
		return r.isNil(gRef{x.Obj})
	case gStale:
		r.fail("stale", token.NoPos, "nil test on %s", x.Why)
		return false
	case gOpaque:
		// an opaque value (e.g. the error result of a conversion): both outcomes are possible
		k := "nilq:" + x.Desc
		if d, ok := r.facts[k]; ok {
			return d
		}
		c := r.decide("nil:"+x.Desc, 2, []string{x.Desc + "==nil", x.Desc + "!=nil"})
		r.facts[k] = c == 0
		return c == 0
	case gInt, gBool, gStr, gBytes, gBytesCat, gAddr:
		return false
	}
	panic(gAbort{"nil test on a value of unmodelled kind " + describeG(v)})
}

// fieldType finds the field of a struct type by name.
func fieldOfNamed(n *types.Named, name string) *types.Var {
	st, ok := n.Underlying().(*types.Struct)
	if !ok {
		return nil
	}
	for i := 0; i < st.NumFields(); i++ {
		if st.Field(i).Name() == name {
			return st.Field(i)
		}
	}
	return nil
}

// pre-state value of a field of an object
func (r *gRun) preField(o *gObj, f string, ft types.Type) gv {
	if v, ok := o.Pre[f]; ok {
		return v
	}
	var v gv
	cls := classifySlot(ft)
	known := o.Input && o.Alt != nil && !o.Alt.Any
	switch {
	case !o.Input:
		v = zeroG(ft)
	case known && o.Alt.NilF[f]:
		v = zeroG(ft)
	default:
		origin := fmt.Sprintf("old(%s.%s)", o.Origin, f)
		switch cls {
		case "token":
			c := r.newObj("token", origin)
			c.Input, c.MaybeNil, c.Parent, c.PField = true, true, o, f
			if known && o.Alt.NonNilF[f] {
				c.MaybeNil = false
			}
			v = gRef{c}
		case "vertex":
			c := r.newObj("node", origin)
			c.Input, c.MaybeNil, c.Parent, c.PField = true, true, o, f
			if known && o.Alt.NonNilF[f] {
				c.MaybeNil = false
			}
			if known && o.Alt.ChildAlts[f] != nil {
				c.Alts = o.Alt.ChildAlts[f]
				hasNil := false
				for _, a := range c.Alts {
					if a.Nil {
						hasNil = true
					}
				}
				if !hasNil {
					c.MaybeNil = false
				}
			}
			v = gRef{c}
		case "vertices":
			c := r.newObj("list", origin)
			c.Input, c.Parent, c.PField = true, o, f
			c.LNil, c.LEmpty, c.LNonEmpty = true, true, true
			if known && o.Alt.NonEmpty[f] {
				c.LNil, c.LEmpty = false, false
			}
			c.ElemsNonNil, c.ElemsPos = true, true // tree-shape invariant of finished nodes; for carriers established by the producing rules (checked: list-elems obligations)
			v = &gList{Base: c}
		case "tokens":
			c := r.newObj("toklist", origin)
			c.Input, c.Parent, c.PField = true, o, f
			c.LNil, c.LEmpty, c.LNonEmpty = true, true, true
			v = &gList{Base: c, Tok: true}
		case "position":
			c := r.newObj("pos", origin)
			c.Input, c.Parent, c.PField = true, o, f
			c.MaybeNil = !(known && o.Alt.PosSet)
			if o.Kind == "token" {
				c.MaybeNil = false
			}
			if o.Kind == "node" && r.posSetOf(o) {
				c.MaybeNil = false
			}
			v = gRef{c}
		case "value":
			v = gBytes{o, f}
		default:
			if _, ok := ft.Underlying().(*types.Signature); ok {
				c := r.newObj("func", origin)
				c.Input, c.MaybeNil = true, true
				v = gFuncV{c}
			} else if _, ok := ft.Underlying().(*types.Pointer); ok {
				c := r.newObj("other", origin)
				c.Input = true
				c.T = namedOf(ft)
				v = gRef{c}
			} else {
				v = gOpaque{origin}
			}
		}
	}
	o.Pre[f] = v
	return v
}

func zeroG(t types.Type) gv {
	switch u := t.Underlying().(type) {
	case *types.Basic:
		if u.Info()&types.IsBoolean != 0 {
			return gBool{false}
		}
		if u.Info()&types.IsInteger != 0 {
			return gInt{0}
		}
		if u.Info()&types.IsString != 0 {
			return gStr{""}
		}
	}
	return gNil{}
}

func (r *gRun) getField(o *gObj, f string, ft types.Type) gv {
	o.Opened = true
	if v, ok := o.Fields[f]; ok {
		return v
	}
	if o == r.parser {
		switch f {
		case "currentToken":
			return gRef{r.cur}
		case "rootNode":
			return gOpaque{"parser.rootNode"}
		}
	}
	return r.preField(o, f, ft)
}

func (r *gRun) setField(o *gObj, f string, v gv) {
	o.Opened = true
	if _, ok := o.Fields[f]; !ok {
		o.Order = append(o.Order, f)
	}
	o.Fields[f] = v
}

// ---------------------------------------------------------------------------

func (r *gRun) val(v ssa.Value) gv {
	switch c := v.(type) {
	case *ssa.Const:
		if c.Value == nil {
			return gNil{}
		}
		switch c.Value.Kind() {
		case constant.Bool:
			return gBool{constant.BoolVal(c.Value)}
		case constant.String:
			return gStr{constant.StringVal(c.Value)}
		case constant.Int:
			n, _ := constant.Int64Val(c.Value)
			return gInt{n}
		}
		return gOpaque{"const " + c.Value.ExactString()}
	case *ssa.Function:
		return gOpaque{"func " + c.Name()}
	case *ssa.Global:
		return gOpaque{"global " + c.Name()}
	}
	if x, ok := r.env[v]; ok {
		return x
	}
	if v == r.gp.YYVAL {
		return gAddr{Kind: "yyval"}
	}
	if v == r.gp.YYLex {
		return gOpaque{"yylex"}
	}
	return gOpaque{"ext:" + v.Name()}
}

// wantExplicit: the action inspects list inputs element by element; ask for the bounded
// (explicit) representation of every list-typed right-hand-side symbol and re-run
func (r *gRun) wantExplicit() {
	for i, sym := range r.rule.RHS {
		_ = i
		if r.symKind(sym) == "list" && !r.gp.Explicit[sym] {
			r.gp.Explicit[sym] = true
			r.gp.ExplicitGrew = true
		}
	}
}

func (r *gRun) wantExplicitOf(b *gObj) {
	if b != nil && b.Dollar > 0 && b.Kind == "list" {
		sym := r.rule.RHS[b.Dollar-1]
		if !r.gp.Explicit[sym] {
			r.gp.Explicit[sym] = true
			r.gp.ExplicitGrew = true
		}
	}
}

type gLoop struct{}

// runRegion executes the region of the rule under the decisions in r.dec.
func (r *gRun) runRegion(reg *gramRegion) {
	b := reg.Entry
	var prev *ssa.BasicBlock = reg.From
	visited := map[*ssa.BasicBlock]int{}
	for b != r.gp.Done {
		visited[b]++
		if visited[b] > 1 && !r.bounded {
			r.wantExplicit()
			panic(gAbort{"loop in the action (outside the modelled subset; bounded stand-in)"})
		}
		if visited[b] > 40 {
			panic(gAbort{"loop in the action does not terminate within 40 iterations on a bounded list"})
		}
		// phis
		for _, in := range b.Instrs {
			phi, ok := in.(*ssa.Phi)
			if !ok {
				break
			}
			for i, p := range b.Preds {
				if p == prev {
					r.env[phi] = r.val(phi.Edges[i])
				}
			}
		}
		var next *ssa.BasicBlock
		for _, in := range b.Instrs {
			switch i := in.(type) {
			case *ssa.Phi:
			case *ssa.If:
				c := r.truth(r.val(i.Cond), i.Pos())
				if c {
					next = b.Succs[0]
				} else {
					next = b.Succs[1]
				}
			case *ssa.Jump:
				next = b.Succs[0]
			case *ssa.Return, *ssa.Panic:
				panic(gAbort{"return/panic inside an action"})
			default:
				r.exec(in)
			}
		}
		if next == nil {
			panic(gAbort{"block without terminator"})
		}
		prev, b = b, next
	}
}

func (r *gRun) truth(v gv, pos token.Pos) bool {
	switch x := v.(type) {
	case gBool:
		return x.V
	case gCond:
		c := r.decide("cond:"+x.Key, 2, []string{x.Key, "!(" + x.Key + ")"})
		return c == 0
	case gStale:
		r.fail("stale", pos, "branch on %s", x.Why)
		return false
	}
	k := describeG(v)
	c := r.decide("cond:"+k, 2, []string{k, "!(" + k + ")"})
	return c == 0
}

func describeG(v gv) string {
	switch x := v.(type) {
	case gNil:
		return "nil"
	case gStale:
		return "stale"
	case gInt:
		return fmt.Sprint(x.V)
	case gBool:
		return fmt.Sprint(x.V)
	case gStr:
		return fmt.Sprintf("%q", x.V)
	case gOpaque:
		return x.Desc
	case gCond:
		return x.Key
	case gBytes:
		return x.Obj.Origin + "." + x.Field
	case gBytesCat:
		var parts []string
		for _, p := range x.Parts {
			parts = append(parts, describeG(p))
		}
		return "bytes(" + strings.Join(parts, " + ") + ")"
	case gLen:
		if x.Add != 0 {
			return fmt.Sprintf("(len(%s)+%d)", x.Base.Origin, x.Add)
		}
		return "len(" + x.Base.Origin + ")"
	case gRef:
		return x.Obj.Origin
	case gFuncV:
		return x.Obj.Origin
	case gStructVal:
		return "*" + x.Of.Origin
	case *gList:
		var parts []string
		for _, a := range x.Pre {
			parts = append(parts, describeG(a))
		}
		if x.Base != nil {
			parts = append(parts, x.Base.Origin+"...")
		}
		for _, a := range x.App {
			parts = append(parts, describeG(a))
		}
		return "[" + strings.Join(parts, ", ") + "]"
	case gTuple:
		var parts []string
		for _, a := range x {
			parts = append(parts, describeG(a))
		}
		return "(" + strings.Join(parts, ", ") + ")"
	case gAddr:
		return "&" + x.Kind + "." + x.Field
	case *gPosV:
		var parts []string
		for _, a := range x.Args {
			parts = append(parts, describeG(a))
		}
		return x.Fn + "(" + strings.Join(parts, ", ") + ")"
	}
	return fmt.Sprintf("%T", v)
}

func (r *gRun) derefObj(v gv, pos token.Pos, what string) *gObj {
	switch x := v.(type) {
	case gRef:
		if r.isNil(x) {
			r.fail("nil", pos, "nil dereference: %s may be nil here (%s)", x.Obj.Origin, what)
			panic(gAbort{"nil dereference"})
		}
		return x.Obj
	case gNil:
		r.fail("nil", pos, "nil dereference (%s)", what)
		panic(gAbort{"nil dereference"})
	case gStale:
		r.fail("stale", pos, "%s (%s)", x.Why, what)
		panic(gAbort{"stale value used"})
	}
	r.fail("subset", pos, "dereference of %s (%s)", describeG(v), what)
	panic(gAbort{"unmodelled dereference"})
}

func (r *gRun) exec(in ssa.Instruction) {
	r.steps++
	switch i := in.(type) {
	case *ssa.DebugRef:
	case *ssa.BinOp:
		r.env[i] = r.binop(i)
	case *ssa.UnOp:
		r.env[i] = r.unop(i)
	case *ssa.Slice:
		x := r.val(i.X)
		switch xv := x.(type) {
		case gOpaque:
			if strings.HasPrefix(xv.Desc, "ext:") {
				r.env[i] = gAddr{Kind: "dollarbase"}
				return
			}
		case gAddr:
			if xv.Kind == "arr" {
				l := &gList{NonNil: true}
				l.App = append(l.App, xv.Arr.Elems...)
				if shortType(xv.Arr.ElemT) == "*token.Token" {
					l.Tok = true
				}
				r.env[i] = l
				return
			}
		case *gList:
			// list[lo:hi]
			lo, hi := int64(0), int64(-1)
			okb := true
			if i.Low != nil {
				if c, ok := r.val(i.Low).(gInt); ok {
					lo = c.V
				} else {
					okb = false
				}
			}
			if i.High != nil {
				hv := r.val(i.High)
				if c, ok := hv.(gInt); ok {
					hi = c.V
				} else if o, ok := hv.(gOpaque); ok && strings.HasPrefix(o.Desc, "len(") {
					hi = -1
				} else {
					okb = false
				}
			}
			if okb && xv.Base == nil {
				n := int64(len(xv.App))
				if hi < 0 {
					hi = n
				}
				if lo <= hi && hi <= n {
					r.env[i] = &gList{App: append([]gv{}, xv.App[lo:hi]...), NonNil: true, Tok: xv.Tok}
					return
				}
			}
			r.wantExplicitOf(xv.Base)
			r.fail("subset", i.Pos(), "slice expression over a symbolic list")
			panic(gAbort{"symbolic slicing"})
		}
		r.fail("subset", i.Pos(), "slice of %s", describeG(x))
		panic(gAbort{"unmodelled slice"})
	case *ssa.IndexAddr:
		x := r.val(i.X)
		idx := r.val(i.Index)
		switch xv := x.(type) {
		case gAddr:
			if xv.Kind == "dollarbase" {
				k, ok := idx.(gInt)
				if !ok || k.V < 1 || int(k.V) > len(r.rule.RHS) {
					if ok && k.V == 0 && len(r.rule.RHS) == 0 {
						r.fail("idx", i.Pos(), "yyDollar[%d] with an empty right-hand side", k.V)
					} else {
						r.fail("idx", i.Pos(), "yyDollar[%s] outside 1..%d", describeG(idx), len(r.rule.RHS))
					}
					panic(gAbort{"bad $ index"})
				}
				r.env[i] = gAddr{Kind: "dollar", K: int(k.V)}
				return
			}
			if xv.Kind == "arr" {
				k, ok := idx.(gInt)
				if !ok || k.V < 0 || int(k.V) >= len(xv.Arr.Elems) {
					r.fail("idx", i.Pos(), "array index")
					panic(gAbort{"array index"})
				}
				r.env[i] = gAddr{Kind: "elem", Arr: xv.Arr, K: int(k.V)}
				return
			}
		case *gList:
			r.env[i] = r.listElemAddr(xv, idx, i.Pos())
			return
		}
		r.fail("subset", i.Pos(), "index of %s", describeG(x))
		panic(gAbort{"unmodelled index"})
	case *ssa.FieldAddr:
		x := r.val(i.X)
		bt := i.X.Type().Underlying().(*types.Pointer).Elem()
		st, _ := isStruct(bt)
		fname := st.Field(i.Field).Name()
		switch xv := x.(type) {
		case gAddr:
			switch xv.Kind {
			case "dollar":
				r.env[i] = gAddr{Kind: "dollarf", K: xv.K, Field: fname}
				return
			case "yyval":
				r.env[i] = gAddr{Kind: "yyvalf", Field: fname}
				return
			}
		}
		o := r.derefObj(x, i.Pos(), "&"+describeG(x)+"."+fname)
		if o.T == nil && o.Kind == "node" {
			// field access needs the dynamic type: only reachable after a type assertion
			o.T = namedOf(bt)
		}
		r.env[i] = gAddr{Kind: "field", Obj: o, Field: fname}
	case *ssa.Alloc:
		et := i.Type().(*types.Pointer).Elem()
		switch u := et.Underlying().(type) {
		case *types.Struct:
			r.newCnt++
			o := r.newObj("node", fmt.Sprintf("new#%d(%s)", r.newCnt, typeName(et)))
			o.T = namedOf(et)
			o.NewIdx = r.newCnt
			if o.T != nil && typeName(o.T) == "pkg/position.Position" {
				o.Kind = "pos"
			}
			r.env[i] = gRef{o}
		case *types.Array:
			a := &gArr{ElemT: u.Elem()}
			for k := int64(0); k < u.Len(); k++ {
				a.Elems = append(a.Elems, zeroG(u.Elem()))
			}
			r.env[i] = gAddr{Kind: "arr", Arr: a}
		default:
			r.env[i] = gAddr{Kind: "cell", Cell: &gCell{V: zeroG(et)}}
		}
	case *ssa.Store:
		r.store(r.val(i.Addr), r.val(i.Val), i.Pos())
	case *ssa.MakeInterface:
		r.env[i] = r.val(i.X)
	case *ssa.ChangeInterface:
		r.env[i] = r.val(i.X)
	case *ssa.ChangeType:
		r.env[i] = r.val(i.X)
	case *ssa.Convert:
		x := r.val(i.X)
		if c, ok := x.(gInt); ok {
			r.env[i] = c
		} else if st, ok := x.(gStr); ok && shortType(i.Type()) == "[]byte" {
			r.env[i] = gBytesCat{Parts: []gv{st}}
		} else {
			r.env[i] = gOpaque{"convert<" + shortType(i.Type()) + ">(" + describeG(x) + ")"}
		}
	case *ssa.TypeAssert:
		r.typeAssert(i)
	case *ssa.Extract:
		t := r.val(i.Tuple)
		if tv, ok := t.(gTuple); ok && i.Index < len(tv) {
			r.env[i] = tv[i.Index]
		} else {
			r.env[i] = gOpaque{fmt.Sprintf("%s#%d", describeG(t), i.Index)}
		}
	case *ssa.Call:
		r.call(i)
	case *ssa.MakeSlice:
		r.env[i] = &gList{NonNil: true, Tok: shortType(i.Type()) == "[]*token.Token"}
	default:
		r.fail("subset", in.Pos(), "instruction %T outside the modelled subset: %s", in, in)
		panic(gAbort{"unmodelled instruction"})
	}
}

func (r *gRun) listElemAddr(l *gList, idx gv, pos token.Pos) gv {
	if k, ok := idx.(gInt); ok && l.Base != nil && int(k.V) < len(l.Pre) && k.V >= 0 {
		return gAddr{Kind: "cell", Cell: &gCell{V: l.Pre[k.V]}}
	}
	if l.Base == nil && len(l.Pre) > 0 {
		l = &gList{App: append(append([]gv{}, l.Pre...), l.App...), NonNil: l.NonNil, Tok: l.Tok}
	}
	if k, ok := idx.(gInt); ok && l.Base == nil {
		if k.V >= 0 && int(k.V) < len(l.App) {
			c := &gCell{V: l.App[k.V]}
			return gAddr{Kind: "cell", Cell: c}
		}
		r.fail("idx", pos, "index %d out of range of a list of %d elements", k.V, len(l.App))
		panic(gAbort{"index out of range"})
	}
	// symbolic element of an opaque list
	if l.Base != nil && l.Base.Dollar > 0 {
		// element access into a list-typed symbol: use the bounded explicit representation
		r.wantExplicitOf(l.Base)
		r.fail("subset", pos, "element access into the symbolic list %s", l.Base.Origin)
		panic(gAbort{"symbolic index"})
	}
	desc := describeG(idx)
	if l.Base != nil && len(l.App) == 0 && len(l.Pre) == 0 {
		b := l.Base
		okIdx := false
		if d, okf := r.facts[fmt.Sprintf("lempty:%d", b.ID)]; okf && !d {
			if k, ok := idx.(gInt); ok && k.V == 0 {
				okIdx = true
			}
			if gl, ok := idx.(gLen); ok && gl.Base == b && gl.Add == -1 {
				okIdx = true
			}
		}
		if k, ok := idx.(gInt); ok && k.V == 0 {
			// first element: needs non-emptiness
			if b.LNonEmpty && !b.LNil && !b.LEmpty {
				okIdx = true
			}
		}
		if gl, ok := idx.(gLen); ok && gl.Base == b && gl.Add == -1 {
			if b.LNonEmpty && !b.LNil && !b.LEmpty {
				okIdx = true
			}
			desc = "last"
		}
		if n, known := r.lenEq[b.ID]; known {
			if kk, ok := idx.(gInt); ok && int(kk.V) < n {
				okIdx = true
			}
		}
		if !okIdx {
			r.fail("idx", pos, "%s[%s]: the list is not known to be non-empty", b.Origin, desc)
		}
		k := "elem(" + b.Origin + "," + desc + ")"
		if v, ok := b.Pre[k]; ok {
			return gAddr{Kind: "cell", Cell: &gCell{V: v}}
		}
		c := r.newObj("node", k)
		c.Input, c.Parent = true, b
		c.MaybeNil = !b.ElemsNonNil
		if b.Parent != nil && b.Parent.Alt != nil {
			c.Alts = b.Parent.Alt.ElemAlts[b.PField]
		}
		if b.Dollar > 0 && b.ElemAlts != nil && !c.MaybeNil {
			c.Alts = b.ElemAlts
		}
		v := gRef{c}
		b.Pre[k] = v
		return gAddr{Kind: "cell", Cell: &gCell{V: v}}
	}
	r.fail("subset", pos, "index %s of a partly symbolic list", desc)
	panic(gAbort{"symbolic index"})
}

func (r *gRun) load(a gv, ft types.Type, pos token.Pos) gv {
	switch x := a.(type) {
	case gAddr:
		switch x.Kind {
		case "dollarf":
			return r.dollars[x.K][x.Field]
		case "dollar":
			return gOpaque{"slot"}
		case "yyvalf":
			return r.yyval[x.Field]
		case "field":
			return r.getField(x.Obj, x.Field, ft)
		case "elem":
			return x.Arr.Elems[x.K]
		case "cell":
			return x.Cell.V
		}
	case gRef:
		// load of a whole struct through a pointer (position copy)
		if x.Obj.Kind == "pos" {
			if r.isNil(x) {
				r.fail("nil", pos, "nil dereference: *%s", x.Obj.Origin)
				panic(gAbort{"nil dereference"})
			}
			return gStructVal{x.Obj}
		}
	case gNil:
		r.fail("nil", pos, "load through nil pointer")
		panic(gAbort{"nil dereference"})
	case gOpaque:
		if strings.HasPrefix(x.Desc, "global ") {
			// a value kept in a package-level variable: whatever the action builds from it is shared by
			// every tree (and every slot) it is stored in - C12: no node object reachable along two paths
			r.fail("shared", pos, "the action uses the value of package-level variable %s: an object stored from it is reachable from every place it is stored in", strings.TrimPrefix(x.Desc, "global "))
			o := r.newObj("node", x.Desc)
			o.Input = true
			return gRef{o}
		}
	}
	r.fail("subset", pos, "load through %s", describeG(a))
	panic(gAbort{"unmodelled load"})
}

func (r *gRun) store(a, v gv, pos token.Pos) {
	switch x := a.(type) {
	case gAddr:
		switch x.Kind {
		case "yyvalf":
			r.yyval[x.Field] = v
			r.yyvalW[x.Field] = true
			return
		case "field":
			if x.Obj == r.parser && x.Field == "rootNode" {
				r.rootSet = v
			}
			r.setField(x.Obj, x.Field, v)
			return
		case "elem":
			x.Arr.Elems[x.K] = v
			return
		case "cell":
			x.Cell.V = v
			return
		case "dollarf":
			// assignment to $i: a local change of the popped stack slot
			r.dollars[x.K][x.Field] = v
			return
		case "dollar":
			r.fail("subset", pos, "store into the parser stack")
			panic(gAbort{"store to $i"})
		}
	case gRef:
		if x.Obj.Kind == "pos" {
			if sv, ok := v.(gStructVal); ok {
				if r.isNil(x) {
					r.fail("nil", pos, "store through nil position pointer %s", x.Obj.Origin)
					panic(gAbort{"nil dereference"})
				}
				x.Obj.Content = gRef{sv.Of}
				x.Obj.Opened = true
				return
			}
		}
	}
	r.fail("subset", pos, "store through %s", describeG(a))
	panic(gAbort{"unmodelled store"})
}

func (r *gRun) unop(i *ssa.UnOp) gv {
	x := r.val(i.X)
	switch i.Op {
	case token.MUL:
		return r.load(x, i.Type(), i.Pos())
	case token.NOT:
		switch c := x.(type) {
		case gBool:
			return gBool{!c.V}
		case gCond:
			// decide now, keeps conditions consistent
			return gBool{!r.truth(c, i.Pos())}
		}
		return gBool{!r.truth(x, i.Pos())}
	case token.SUB:
		if c, ok := x.(gInt); ok {
			return gInt{-c.V}
		}
	}
	return gOpaque{i.Op.String() + describeG(x)}
}

func (r *gRun) binop(i *ssa.BinOp) gv {
	a, b := r.val(i.X), r.val(i.Y)
	ai, aok := a.(gInt)
	bi, bok := b.(gInt)
	if aok && bok {
		switch i.Op {
		case token.ADD:
			return gInt{ai.V + bi.V}
		case token.SUB:
			return gInt{ai.V - bi.V}
		case token.EQL:
			return gBool{ai.V == bi.V}
		case token.NEQ:
			return gBool{ai.V != bi.V}
		case token.LSS:
			return gBool{ai.V < bi.V}
		case token.LEQ:
			return gBool{ai.V <= bi.V}
		case token.GTR:
			return gBool{ai.V > bi.V}
		case token.GEQ:
			return gBool{ai.V >= bi.V}
		}
	}
	if al, ok := a.(gLen); ok && bok && (i.Op == token.ADD || i.Op == token.SUB) {
		if i.Op == token.ADD {
			return gLen{al.Base, al.Add + int(bi.V)}
		}
		return gLen{al.Base, al.Add - int(bi.V)}
	}
	if v, ok := r.lenTest(i.Op, a, b); ok {
		return v
	}
	if al, ok := a.(gLen); ok && bok && (i.Op == token.EQL || i.Op == token.NEQ) {
		k := int(bi.V) - al.Add
		b0 := al.Base
		res := false
		if k < 0 || (k == 0 && !b0.LNil && !b0.LEmpty) || (k > 0 && !b0.LNonEmpty) {
			res = false
		} else if n, known := r.lenEq[b0.ID]; known {
			res = n == k
		} else {
			c := r.decide(fmt.Sprintf("len:%s==%d", b0.Origin, k), 2, []string{fmt.Sprintf("len(%s)==%d", b0.Origin, k), fmt.Sprintf("len(%s)!=%d", b0.Origin, k)})
			res = c == 0
			if res {
				r.lenEq[b0.ID] = k
			}
		}
		if i.Op == token.NEQ {
			res = !res
		}
		return gBool{res}
	}
	switch i.Op {
	case token.EQL, token.NEQ:
		_, an := a.(gNil)
		_, bn := b.(gNil)
		var eq gv
		switch {
		case an && bn:
			eq = gBool{true}
		case bn:
			eq = gBool{r.isNil(a)}
		case an:
			eq = gBool{r.isNil(b)}
		default:
			ab, aisb := a.(gBool)
			bb, bisb := b.(gBool)
			if aisb && bisb {
				eq = gBool{ab.V == bb.V}
			} else {
				eq = gCond{describeG(a) + " == " + describeG(b)}
			}
		}
		if i.Op == token.NEQ {
			if e, ok := eq.(gBool); ok {
				return gBool{!e.V}
			}
			return gBool{!r.truth(eq, i.Pos())}
		}
		return eq
	case token.LSS, token.LEQ, token.GTR, token.GEQ:
		return gCond{"(" + describeG(a) + " " + i.Op.String() + " " + describeG(b) + ")"}
	case token.LAND, token.AND:
		if ab, ok := a.(gBool); ok {
			if bb, ok := b.(gBool); ok {
				return gBool{ab.V && bb.V}
			}
		}
	}
	return gOpaque{"(" + describeG(a) + " " + i.Op.String() + " " + describeG(b) + ")"}
}

// lenTest: comparisons between len(opaque list)+c and a constant that amount to an emptiness test
func (r *gRun) lenTest(op token.Token, a, b gv) (gv, bool) {
	var gl gLen
	var k int64
	flip := false
	if x, ok := a.(gLen); ok {
		c, ok2 := b.(gInt)
		if !ok2 {
			return nil, false
		}
		gl, k = x, c.V
	} else if x, ok := b.(gLen); ok {
		c, ok2 := a.(gInt)
		if !ok2 {
			return nil, false
		}
		gl, k, flip = x, c.V, true
	} else {
		return nil, false
	}
	eval := func(n int64) (bool, bool) {
		l, rr := n+int64(gl.Add), k
		if flip {
			l, rr = k, n+int64(gl.Add)
		}
		switch op {
		case token.LSS:
			return l < rr, true
		case token.LEQ:
			return l <= rr, true
		case token.GTR:
			return l > rr, true
		case token.GEQ:
			return l >= rr, true
		}
		return false, false
	}
	v0, ok := eval(0)
	if !ok {
		return nil, false
	}
	v1, _ := eval(1)
	vb, _ := eval(1 << 40)
	if v1 != vb {
		return nil, false
	}
	if v0 == v1 {
		return gBool{v0}, true
	}
	b0 := gl.Base
	key := fmt.Sprintf("lempty:%d", b0.ID)
	var empty bool
	switch {
	case !b0.LNonEmpty:
		empty = true
	case !b0.LNil && !b0.LEmpty:
		empty = false
	default:
		if d, okf := r.facts[fmt.Sprintf("lnil:%d", b0.ID)]; okf && d {
			empty = true
		} else if d, okf := r.facts[key]; okf {
			empty = d
		} else if n, known := r.lenEq[b0.ID]; known {
			empty = n == 0
		} else {
			c := r.decide("empty:"+b0.Origin, 2, []string{"len(" + b0.Origin + ")==0", "len(" + b0.Origin + ")>0"})
			empty = c == 0
		}
	}
	r.facts[key] = empty
	if empty {
		return gBool{v0}, true
	}
	return gBool{v1}, true
}

func (r *gRun) typeAssert(i *ssa.TypeAssert) {
	x := r.val(i.X)
	want := i.AssertedType
	wn := namedOf(want)
	setRes := func(v gv, ok bool) {
		if i.CommaOk {
			r.env[i] = gTuple{v, gBool{ok}}
		} else {
			r.env[i] = v
		}
	}
	if o, ok := x.(gOpaque); ok && o.Desc == "yylex" {
		if wn != nil && r.gp.ParserT != nil && types.Identical(wn, r.gp.ParserT) {
			setRes(gRef{r.parserObj()}, true)
			return
		}
	}
	switch xv := x.(type) {
	case gNil:
		if !i.CommaOk {
			r.fail("assert", i.Pos(), "type assertion .(%s) on a nil value", shortType(want))
			panic(gAbort{"failed assertion"})
		}
		setRes(gNil{}, false)
		return
	case gStale:
		r.fail("stale", i.Pos(), "%s", xv.Why)
		panic(gAbort{"stale"})
	case gRef:
		o := xv.Obj
		if o.Kind == "node" && o.T == nil {
			if o.Alts != nil && i.CommaOk && o.Alt == nil && wn != nil {
				// a type test: split into "is the wanted type" / "is not" without enumerating the other shapes
				var yes, no []*ntAlt
				nilFact, nilDecided := r.facts[fmt.Sprintf("nil:%d", o.ID)]
				for _, a := range o.Alts {
					if nilDecided && a.Nil != nilFact {
						continue
					}
					if !a.Nil && !a.Any && a.T != nil && types.Identical(a.T, wn) {
						yes = append(yes, a)
					} else {
						no = append(no, a)
					}
				}
				anyAlt := false
				for _, a := range no {
					if a.Any {
						anyAlt = true
					}
				}
				if !anyAlt {
					c := 1
					switch {
					case len(yes) > 0 && len(no) > 0:
						c = r.decide("is:"+o.Origin+":"+shortType(want), 2, []string{o.Origin + " is " + shortType(want), o.Origin + " is not " + shortType(want)})
					case len(yes) > 0:
						c = 0
					}
					if c == 0 {
						o.Alts = yes
						a := r.chooseAlt(o)
						_ = a
						setRes(xv, true)
					} else {
						o.Alts = no
						setRes(gNil{}, false)
					}
					return
				}
			}
			if o.Alts != nil {
				a := r.chooseAlt(o)
				if a == nil || a.Nil {
					if !i.CommaOk {
						r.fail("assert", i.Pos(), "type assertion %s.(%s): the value may be nil", o.Origin, shortType(want))
						panic(gAbort{"failed assertion"})
					}
					setRes(gNil{}, false)
					return
				}
				if a.Any {
					if !i.CommaOk {
						r.fail("assert", i.Pos(), "type assertion %s.(%s): the contract of the producing symbol does not fix the dynamic type", o.Origin, shortType(want))
						panic(gAbort{"failed assertion"})
					}
					c := r.decide("is:"+o.Origin+":"+shortType(want), 2, []string{"is", "isnot"})
					if c == 0 {
						o.T = wn
						setRes(xv, true)
					} else {
						setRes(gNil{}, false)
					}
					return
				}
			} else {
				// old child of unknown type
				if r.isNil(xv) {
					if !i.CommaOk {
						r.fail("assert", i.Pos(), "type assertion %s.(%s): the value may be nil", o.Origin, shortType(want))
						panic(gAbort{"failed assertion"})
					}
					setRes(gNil{}, false)
					return
				}
				if !i.CommaOk {
					r.fail("assert", i.Pos(), "type assertion %s.(%s): nothing establishes the dynamic type of this value", o.Origin, shortType(want))
					panic(gAbort{"failed assertion"})
				}
				c := r.decide("is:"+o.Origin+":"+shortType(want), 2, []string{"is", "isnot"})
				if c == 0 {
					o.T = wn
					setRes(xv, true)
				} else {
					r.facts["isnot:"+o.Origin+":"+shortType(want)] = true
					setRes(gNil{}, false)
				}
				return
			}
		}
		if r.isNil(xv) {
			if !i.CommaOk {
				r.fail("assert", i.Pos(), "type assertion %s.(%s): the value may be nil", o.Origin, shortType(want))
				panic(gAbort{"failed assertion"})
			}
			setRes(gNil{}, false)
			return
		}
		if o.T != nil && wn != nil && types.Identical(o.T, wn) {
			setRes(xv, true)
			return
		}
		if _, isIface := want.Underlying().(*types.Interface); isIface {
			setRes(xv, true)
			return
		}
		if !i.CommaOk {
			tn := "unknown"
			if o.T != nil {
				tn = typeName(o.T)
			}
			r.fail("assert", i.Pos(), "type assertion %s.(%s) fails: the dynamic type is *%s", o.Origin, shortType(want), tn)
			panic(gAbort{"failed assertion"})
		}
		setRes(gNil{}, false)
		return
	}
	r.fail("subset", i.Pos(), "type assertion on %s", describeG(x))
	panic(gAbort{"unmodelled assertion"})
}

func (r *gRun) call(i *ssa.Call) {
	cc := i.Common()
	var args []gv
	for _, a := range cc.Args {
		args = append(args, r.val(a))
	}
	if bi, ok := cc.Value.(*ssa.Builtin); ok {
		switch bi.Name() {
		case "append":
			if bc, isB := args[0].(gBytesCat); isB {
				nb := gBytesCat{Parts: append([]gv{}, bc.Parts...)}
				switch m := args[1].(type) {
				case gBytes:
					nb.Parts = append(nb.Parts, m)
				case gBytesCat:
					nb.Parts = append(nb.Parts, m.Parts...)
				default:
					r.fail("subset", i.Pos(), "append of %s to bytes", describeG(args[1]))
					panic(gAbort{"unmodelled append"})
				}
				r.env[i] = nb
				return
			}
			base, ok := args[0].(*gList)
			if !ok {
				if _, isNil := args[0].(gNil); isNil {
					base = &gList{Tok: shortType(cc.Args[0].Type()) == "[]*token.Token"}
				} else if st, isStale := args[0].(gStale); isStale {
					r.fail("stale", i.Pos(), "append to %s", st.Why)
					panic(gAbort{"stale"})
				} else {
					r.fail("subset", i.Pos(), "append to %s", describeG(args[0]))
					panic(gAbort{"unmodelled append"})
				}
			}
			nl := &gList{Base: base.Base, NonNil: true, Tok: base.Tok}
			nl.Pre = append(nl.Pre, base.Pre...)
			nl.App = append(nl.App, base.App...)
			switch more := args[1].(type) {
			case *gList:
				if more.Base != nil {
					if base.Base != nil {
						r.wantExplicitOf(base.Base)
						r.wantExplicitOf(more.Base)
						r.fail("subset", i.Pos(), "append of a symbolic list to a symbolic list")
						panic(gAbort{"append symbolic"})
					}
					// literal elements followed by an opaque list
					nl.Pre = append(append(nl.Pre, nl.App...), more.Pre...)
					nl.App = nil
					nl.Base = more.Base
				}
				if more.Base == nil {
					nl.App = append(nl.App, more.Pre...)
				}
				nl.App = append(nl.App, more.App...)
				if nl.Tok {
					// a token list of a parsed tree holds the tokens that were in the source: a nil element
					// makes the printer emit its default lexeme, text that the source does not contain (C02)
					for _, e := range append(append([]gv{}, more.Pre...), more.App...) {
						if r.isNil(e) {
							r.fail("niltok", i.Pos(), "a nil token is appended to a token list (%s): the printer substitutes a default lexeme for it", describeG(e))
						}
					}
				}
			case gNil:
			default:
				r.fail("subset", i.Pos(), "append of %s", describeG(args[1]))
				panic(gAbort{"unmodelled append"})
			}
			r.env[i] = nl
			return
		case "len":
			if l, ok := args[0].(*gList); ok && l.Base == nil {
				r.env[i] = gInt{int64(len(l.App) + len(l.Pre))}
				return
			}
			if _, ok := args[0].(gNil); ok {
				r.env[i] = gInt{0}
				return
			}
			if l, ok := args[0].(*gList); ok && l.Base != nil {
				if d, okf := r.facts[fmt.Sprintf("lnil:%d", l.Base.ID)]; okf && d {
					r.env[i] = gInt{int64(len(l.App) + len(l.Pre))}
					return
				}
				if d, okf := r.facts[fmt.Sprintf("lempty:%d", l.Base.ID)]; okf && d {
					r.env[i] = gInt{int64(len(l.App) + len(l.Pre))}
					return
				}
				if n, okn := r.lenEq[l.Base.ID]; okn {
					r.env[i] = gInt{int64(n + len(l.App) + len(l.Pre))}
					return
				}
				r.env[i] = gLen{l.Base, len(l.App) + len(l.Pre)}
				return
			}
			r.env[i] = gOpaque{"len(" + describeG(args[0]) + ")"}
			return
		}
		r.fail("subset", i.Pos(), "builtin %s", bi.Name())
		panic(gAbort{"unmodelled builtin"})
	}
	if cc.IsInvoke() {
		recv := r.val(cc.Value)
		if cc.Method.Name() == "GetPosition" {
			o := r.derefObj(recv, i.Pos(), "GetPosition()")
			r.env[i] = r.getField(o, "Position", positionPtrType(r.gp.W))
			return
		}
		r.fail("subset", i.Pos(), "interface call %s", cc.Method.Name())
		panic(gAbort{"unmodelled invoke"})
	}
	callee := cc.StaticCallee()
	if callee == nil {
		// call through a function value: the error callback
		fv := r.val(cc.Value)
		if f, ok := fv.(gFuncV); ok {
			k := fmt.Sprintf("nil:%d", f.Obj.ID)
			if d, decided := r.facts[k]; !decided || d {
				r.fail("nilfunc", i.Pos(), "call through %s which may be nil (no nil test dominates the call)", f.Obj.Origin)
			}
			r.cbCalls++
			r.noteCbSite(i)
			return
		}
		r.fail("subset", i.Pos(), "dynamic call of %s", describeG(fv))
		panic(gAbort{"unmodelled dynamic call"})
	}
	name := callee.Name()
	full := callee.String()
	switch {
	case strings.Contains(full, "internal/position.Builder).New"):
		r.newCnt++
		p := r.newObj("pos", fmt.Sprintf("pos#%d:%s", r.newCnt, name))
		p.NewIdx = r.newCnt
		pv := &gPosV{Fn: name, Args: args[1:]}
		for _, a := range args[1:] {
			if st, ok := a.(gStale); ok {
				r.fail("stale", i.Pos(), "%s passed to %s", st.Why, name)
			}
			var snap gv
			if rf, ok := a.(gRef); ok && rf.Obj.Kind == "node" {
				if w, written := rf.Obj.Fields["Position"]; written {
					snap = w
				}
			}
			pv.ArgPos = append(pv.ArgPos, snap)
		}
		p.Content = pv
		r.env[i] = gRef{p}
		return
	case name == "lastNode" && len(args) == 1:
		l, _ := args[0].(*gList)
		if l == nil {
			r.env[i] = gNil{}
			return
		}
		if l.Base == nil {
			if len(l.App) == 0 {
				r.env[i] = gNil{}
			} else {
				r.env[i] = l.App[len(l.App)-1]
			}
			return
		}
		if len(l.App) > 0 {
			r.env[i] = l.App[len(l.App)-1]
			return
		}
		b := l.Base
		k := "last(" + b.Origin + ")"
		if v, ok := b.Pre[k]; ok {
			r.env[i] = v
			return
		}
		c := r.newObj("node", k)
		c.Input, c.Parent = true, b
		c.MaybeNil = b.LNil || b.LEmpty || !b.ElemsNonNil
		if b.Parent != nil && b.Parent.Alt != nil && !c.MaybeNil {
			c.Alts = b.Parent.Alt.ElemAlts[b.PField]
		}
		if b.Dollar > 0 && b.ElemAlts != nil && !c.MaybeNil {
			c.Alts = b.ElemAlts
		}
		b.Pre[k] = gRef{c}
		r.env[i] = gRef{c}
		return
	case strings.HasPrefix(full, "strconv.") && callee.Signature.Results().Len() == 2:
		// pure standard-library conversion: (value, error) as opaque functions of the arguments
		var as []string
		for _, a := range args {
			as = append(as, describeG(a))
		}
		d := full + "(" + strings.Join(as, ", ") + ")"
		r.env[i] = gTuple{gOpaque{d + "#0"}, gOpaque{d + "#err"}}
		return
	case strings.HasSuffix(full, "pkg/errors.NewError"):
		r.env[i] = gOpaque{"error(" + describeG(args[0]) + ")"}
		return
	}
	if r.gp.guardedCallbackHelper(callee) {
		// a method of *Parser that is exactly "if p.errHandlerFunc == nil { return }; p.errHandlerFunc(e)"
		r.cbCalls++
		r.noteCbSite(i)
		return
	}
	if r.inlineCall(i, callee, args) {
		return
	}
	r.fail("subset", i.Pos(), "call of %s is outside the modelled subset", full)
	panic(gAbort{"unmodelled call"})
}

func (r *gRun) noteCbSite(i *ssa.Call) {
	if r.cbSites == nil {
		r.cbSites = map[*ssa.Call]bool{}
	}
	r.cbSites[i] = true
}

// errorSites: the call sites inside a rule's action that report an error (the guarded callback helper
// of the parser, or the callback itself).
func (gp *gramParser) errorSites(reg *gramRegion) []*ssa.Call {
	var out []*ssa.Call
	seen := map[*ssa.BasicBlock]bool{}
	stack := []*ssa.BasicBlock{reg.Entry}
	for len(stack) > 0 {
		b := stack[len(stack)-1]
		stack = stack[:len(stack)-1]
		if seen[b] || b == gp.Done {
			continue
		}
		seen[b] = true
		for _, in := range b.Instrs {
			if c, ok := in.(*ssa.Call); ok {
				if f := c.Common().StaticCallee(); f != nil && gp.guardedCallbackHelper(f) {
					out = append(out, c)
				}
			}
		}
		stack = append(stack, b.Succs...)
	}
	return out
}

// inlineCall executes a loop-free helper of the module in place (an action refactored into a helper
// must verify like the action it came from). Returns false when the callee is not eligible.
func (r *gRun) inlineCall(i *ssa.Call, callee *ssa.Function, args []gv) bool {
	if callee == nil || callee.Blocks == nil || !strings.HasPrefix(funcPkgPath(callee), modPath) || r.inlineDepth >= 3 {
		return false
	}
	if len(args) != len(callee.Params) {
		return false
	}
	r.inlineDepth++
	defer func() { r.inlineDepth-- }()
	for k, p := range callee.Params {
		r.env[p] = args[k]
	}
	b := callee.Blocks[0]
	var prev *ssa.BasicBlock
	visited := map[*ssa.BasicBlock]int{}
	for {
		visited[b]++
		if visited[b] > 1 {
			panic(gAbort{"loop in helper " + callee.Name() + " called from the action (outside the modelled subset)"})
		}
		for _, in := range b.Instrs {
			phi, ok := in.(*ssa.Phi)
			if !ok {
				break
			}
			for k, p := range b.Preds {
				if p == prev {
					r.env[phi] = r.val(phi.Edges[k])
				}
			}
		}
		var next *ssa.BasicBlock
		for _, in := range b.Instrs {
			switch x := in.(type) {
			case *ssa.Phi:
			case *ssa.If:
				if r.truth(r.val(x.Cond), x.Pos()) {
					next = b.Succs[0]
				} else {
					next = b.Succs[1]
				}
			case *ssa.Jump:
				next = b.Succs[0]
			case *ssa.Return:
				switch len(x.Results) {
				case 0:
				case 1:
					r.env[i] = r.val(x.Results[0])
				default:
					var tv gTuple
					for _, rv := range x.Results {
						tv = append(tv, r.val(rv))
					}
					r.env[i] = tv
				}
				return true
			case *ssa.Panic:
				panic(gAbort{"panic in helper " + callee.Name()})
			default:
				r.exec(in)
			}
		}
		if next == nil {
			panic(gAbort{"block without terminator in helper " + callee.Name()})
		}
		prev, b = b, next
	}
}

// guardedCallbackHelper recognises, from the trace of the real function, a helper whose whole
// effect is to call the optional error callback when it is not nil.
func (gp *gramParser) guardedCallbackHelper(fn *ssa.Function) bool {
	if v, ok := gp.cbHelper[fn]; ok {
		return v
	}
	res := false
	if fn.Signature.Recv() != nil && funcPkgPath(fn) == gp.Pkg && fn.Blocks != nil {
		paths, err := traceFunction(gp.W, fn, nil)
		if err == nil {
			ps := feasible(paths)
			nilPath, callPath := 0, 0
			ok := true
			for _, p := range ps {
				switch {
				case len(p.Conds) == 1 && len(p.Events) == 0 && p.Conds[0].Val && p.Conds[0].E.S == "(p.errHandlerFunc == nil)":
					nilPath++
				case len(p.Conds) == 1 && !p.Conds[0].Val && p.Conds[0].E.S == "(p.errHandlerFunc == nil)" && len(p.Events) == 1 && p.Events[0].Callee == "dyncall" && p.Events[0].Recv != nil && p.Events[0].Recv.S == "p.errHandlerFunc":
					callPath++
				default:
					ok = false
				}
			}
			res = ok && nilPath == 1 && callPath == 1
		}
	}
	if gp.cbHelper == nil {
		gp.cbHelper = map[*ssa.Function]bool{}
	}
	gp.cbHelper[fn] = res
	return res
}

func positionPtrType(w *World) types.Type {
	p := w.PkgByPath[modPath+"/pkg/position"]
	if p == nil {
		return nil
	}
	return types.NewPointer(p.Types.Scope().Lookup("Position").Type())
}

// ---------------------------------------------------------------------------
// path enumeration

type gPathRes struct {
	Run     *gRun
	Aborted string
	Dec     []string
}

func (gp *gramParser) runRule(rule *yRule, nts map[string]*ntInfo, maxPaths int) (paths []*gPathRes, skipped bool) {
	reg := gp.Regions[rule.Num]
	var explore func(dec map[string]int, log []string)
	explore = func(dec map[string]int, log []string) {
		if len(paths) >= maxPaths {
			return
		}
		r := &gRun{gp: gp, rule: rule, nts: nts, dec: dec, env: map[ssa.Value]gv{}, facts: map[string]bool{}, lenEq: map[int]int{}}
		res := &gPathRes{Run: r, Dec: log}
		var need *needDecision
		setupOK := true
		func() {
			defer func() {
				if e := recover(); e != nil {
					if x, ok := e.(needDecision); ok {
						need = &x
						return
					}
					panic(e)
				}
			}()
			setupOK = r.setupInputs()
		}()
		if need == nil && !setupOK {
			skipped = true
			return
		}
		if need == nil {
		func() {
			defer func() {
				if e := recover(); e != nil {
					switch x := e.(type) {
					case needDecision:
						need = &x
					case gAbort:
						res.Aborted = x.Why
					default:
						panic(e)
					}
				}
			}()
			if reg != nil {
				r.runRegion(reg)
			}
		}()
		}
		if need != nil {
			for c := 0; c < need.N; c++ {
				nd := map[string]int{}
				for k, v := range dec {
					nd[k] = v
				}
				nd[need.Key] = c
				lab := fmt.Sprintf("%s=%d", need.Key, c)
				if c < len(need.Lab) {
					lab = need.Lab[c]
				}
				explore(nd, append(append([]string{}, log...), lab))
			}
			return
		}
		paths = append(paths, res)
	}
	explore(map[string]int{}, nil)
	return
}
