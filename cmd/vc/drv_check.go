package main

import (
	"fmt"
	"go/constant"
	"go/types"
	"sort"
	"strings"
	"time"

	"golang.org/x/tools/go/ssa"
)

// lrDepthLemma decides, on the tables as they stand in the generated file, the one fact about the
// driver that is a property of goyacc's construction: whenever the driver reduces by rule r in state
// s, the stack holds at least yyR2[r] states above its bottom entry. It is a least fixpoint over the
// abstract driver: Gr is the set of state pairs (b, s') such that s' can be pushed directly on top of b.
//   shift:   for every state s in Gr's node set and every terminal t (including `error`): the table
//            look-up the driver performs (yyPact/yyAct/yyChk) - when it yields a shift to s', (s, s') is in Gr;
//   reduce:  for every node s and every rule r the driver can choose in s (yyDef[s] > 0, or an action of
//            s's exception group): for every b from which s is reached by a path of yyR2[r] edges of Gr,
//            s' = goto(b, yyR1[r]) as the driver computes it (yyPgo/yyAct/yyChk), and (b, s') is in Gr.
// Every stack the real driver builds is a path of Gr from state 0 (induction over its steps: a shift and
// a goto push along an edge, error recovery pops and then shifts `error`), so depth(s) = the shortest
// path from state 0 to s in Gr is a lower bound of the stack index of s. The lemma holds iff
// depth(s) >= yyR2[r] for every reduction (s, r). The simulator is a model of the driver's stack
// discipline (class `table`, reported separately, never counted as a discharged obligation).
func (dv *driver) lrDepthLemma() (ok bool, detail string) {
	if dv.lrDone {
		return dv.lrOK, dv.lrDetail
	}
	defer func() { dv.lrDone, dv.lrOK, dv.lrDetail = true, ok, detail }()
	T := dv.tables
	pact, act, chk, def, exca, r1, r2, pgo := T["yyPact"], T["yyAct"], T["yyChk"], T["yyDef"], T["yyExca"], T["yyR1"], T["yyR2"], T["yyPgo"]
	n := len(pact)
	if n == 0 || len(def) != n || len(chk) != n {
		return false, "tables missing or of different lengths"
	}
	last := int64(len(act))
	flag, _ := dv.constOf("yyFlag")
	// number of terminals: the largest token number that occurs in yyChk of any state reachable by a shift is enough;
	// use every value 0..maxTok where maxTok is the largest non-negative yyChk entry
	maxTok := int64(0)
	for _, c := range chk {
		if c > maxTok {
			maxTok = c
		}
	}
	shift := func(s int, t int64) int {
		b := pact[s]
		if b <= flag {
			return -1
		}
		k := b + t
		if k < 0 || k >= last {
			return -1
		}
		a := act[k]
		if a < 0 || a >= int64(n) || chk[a] != t {
			return -1
		}
		return int(a)
	}
	gotoOf := func(b int, a int64) int {
		if a < 0 || a >= int64(len(pgo)) {
			return -1
		}
		g := pgo[a]
		j := g + int64(b) + 1
		var st int64
		if j >= last || j < 0 {
			if g < 0 || g >= last {
				return -1
			}
			st = act[g]
		} else {
			st = act[j]
			if st < 0 || st >= int64(n) || chk[st] != -a {
				if g < 0 || g >= last {
					return -1
				}
				st = act[g]
			}
		}
		if st < 0 || st >= int64(n) {
			return -1
		}
		return int(st)
	}
	// reductions available in a state
	reds := make([][]int64, n)
	for s := 0; s < n; s++ {
		seen := map[int64]bool{}
		add := func(r int64) {
			if r > 0 && r < int64(len(r2)) && !seen[r] {
				seen[r] = true
				reds[s] = append(reds[s], r)
			}
		}
		if def[s] == -2 {
			for i := 0; i+1 < len(exca); i += 2 {
				if exca[i] == -1 && exca[i+1] == int64(s) {
					for j := i + 2; j+1 < len(exca); j += 2 {
						add(exca[j+1])
						if exca[j] < 0 {
							break
						}
					}
					break
				}
			}
		} else {
			add(def[s])
		}
	}
	succ := make([]map[int]bool, n)
	pred := make([]map[int]bool, n)
	for i := range succ {
		succ[i], pred[i] = map[int]bool{}, map[int]bool{}
	}
	node := map[int]bool{0: true}
	addEdge := func(b, s int) bool {
		if succ[b][s] {
			return false
		}
		succ[b][s] = true
		pred[s][b] = true
		node[s] = true
		return true
	}
	for changed := true; changed; {
		changed = false
		var ns []int
		for s := range node {
			ns = append(ns, s)
		}
		sort.Ints(ns)
		for _, s := range ns {
			for t := int64(0); t <= maxTok; t++ {
				if a := shift(s, t); a >= 0 && addEdge(s, a) {
					changed = true
				}
			}
			for _, r := range reds[s] {
				// states k edges back from s
				back := map[int]bool{s: true}
				for k := int64(0); k < r2[r]; k++ {
					nb := map[int]bool{}
					for x := range back {
						for p := range pred[x] {
							nb[p] = true
						}
					}
					back = nb
				}
				for b := range back {
					if g := gotoOf(b, r1[r]); g >= 0 && addEdge(b, g) {
						changed = true
					}
				}
			}
		}
	}
	// shortest distance from state 0
	depth := make([]int64, n)
	for i := range depth {
		depth[i] = -1
	}
	depth[0] = 0
	queue := []int{0}
	for len(queue) > 0 {
		s := queue[0]
		queue = queue[1:]
		for t := range succ[s] {
			if depth[t] < 0 {
				depth[t] = depth[s] + 1
				queue = append(queue, t)
			}
		}
	}
	nred, edges := 0, 0
	for s := range node {
		edges += len(succ[s])
		for _, r := range reds[s] {
			nred++
			if depth[s] < r2[r] {
				return false, fmt.Sprintf("state %d can reduce rule %d (length %d) at stack depth %d", s, r, r2[r], depth[s])
			}
		}
	}
	dv.lrGraph = &lrGraph{succ: succ, pred: pred, node: node, gotoOf: gotoOf}
	return true, fmt.Sprintf("%d states reachable, %d push edges, %d (state, rule) reductions: every reduction finds at least yyR2[r] entries above the bottom of the stack", len(node), edges, nred)
}

type lrGraph struct {
	succ, pred []map[int]bool
	node       map[int]bool
	gotoOf     func(b int, a int64) int
}

// strArrayInit reads the constant initialiser of a package-level [...]string variable.
func strArrayInit(pkg *ssa.Package, name string) []string {
	g, ok := pkg.Members[name].(*ssa.Global)
	if !ok {
		return nil
	}
	at, ok := g.Type().(*types.Pointer).Elem().Underlying().(*types.Array)
	if !ok {
		return nil
	}
	out := make([]string, at.Len())
	init := pkg.Func("init")
	if init == nil {
		return nil
	}
	for _, b := range init.Blocks {
		for _, in := range b.Instrs {
			st, ok := in.(*ssa.Store)
			if !ok {
				continue
			}
			ia, ok := st.Addr.(*ssa.IndexAddr)
			if !ok || ia.X != ssa.Value(g) {
				continue
			}
			ic, ok1 := ia.Index.(*ssa.Const)
			vc, ok2 := st.Val.(*ssa.Const)
			if !ok1 || !ok2 || vc.Value == nil {
				continue
			}
			idx := ic.Int64()
			if idx >= 0 && idx < int64(len(out)) {
				out[idx] = constant.StringVal(vc.Value)
			}
		}
	}
	return out
}

// symbolsOnStackLemma (the standing assumption of E-GRAM: "a stack slot holds a value produced for the symbol that
// labels its state"): on the tables as they stand and the rules as the grammar file states them,
//   (1) every state that the driver pushes by a goto on non-terminal A - also through the default entry of the goto
//       table, which the driver does not test - has A as its accessing symbol (yyChk), and
//   (2) for every reduction (state s, rule r: A -> X1 ... Xn) and every i, all states that lie n-i push-edges below s
//       have Xi as their accessing symbol.
// A value is pushed together with its state: the scanner's value of token t with a state whose accessing symbol is t
// (the driver tests that), $$ of a rule for A with the goto state of A (1). Hence the window yyS[yypt-n+1 .. yypt] of
// a reduction by r holds values produced for X1 ... Xn (2). Needs the graph of lrDepthLemma.
func (dv *driver) symbolsOnStackLemma(gp *gramParser) (bool, string) {
	g := dv.lrGraph
	if g == nil {
		return false, "the push graph is not available"
	}
	T := dv.tables
	chk, def, exca, r1, r2 := T["yyChk"], T["yyDef"], T["yyExca"], T["yyR1"], T["yyR2"]
	names := strArrayInit(dv.spkg, "yyToknames")
	if len(names) == 0 {
		return false, "yyToknames not found"
	}
	tokNum := map[string]int64{}
	for i, n := range names {
		tokNum[n] = int64(i + 1)
	}
	ntNum := map[string]int64{}
	for num, name := range gp.NTName {
		ntNum[name] = num
	}
	if len(gp.Problems) > 0 {
		return false, "grammar file and tables disagree: " + gp.Problems[0]
	}
	symNum := func(sym string) (int64, bool) {
		if sym == "error" {
			return 2, true
		}
		if gp.G.IsTerminal(sym) {
			n, ok := tokNum[sym]
			return n, ok
		}
		n, ok := ntNum[sym]
		return -n, ok
	}
	// (1) goto targets
	gotos := 0
	for b := range g.node {
		for a := int64(0); a < int64(len(T["yyPgo"])); a++ {
			s := g.gotoOf(b, a)
			if s < 0 || !g.succ[b][s] {
				continue
			}
			// the edge b -> s exists; if it is the goto on a, the accessing symbol must be a. An edge can also stem from a
			// shift or from the goto on another non-terminal, so only a matching accessing symbol is required of some a:
			_ = a
		}
	}
	for b := range g.node {
		for s := range g.succ[b] {
			if chk[s] >= 0 {
				continue // pushed by a shift: the driver tests yyChk[s] == token
			}
			gotos++
			if g.gotoOf(b, -chk[s]) != s {
				return false, fmt.Sprintf("state %d is pushed on state %d by a goto, but not by the goto on its accessing symbol %d", s, b, -chk[s])
			}
		}
	}
	// reductions
	reds := func(s int) []int64 {
		var out []int64
		seen := map[int64]bool{}
		add := func(r int64) {
			if r > 0 && r < int64(len(r2)) && !seen[r] {
				seen[r] = true
				out = append(out, r)
			}
		}
		if def[s] == -2 {
			for i := 0; i+1 < len(exca); i += 2 {
				if exca[i] == -1 && exca[i+1] == int64(s) {
					for j := i + 2; j+1 < len(exca); j += 2 {
						add(exca[j+1])
						if exca[j] < 0 {
							break
						}
					}
					break
				}
			}
		} else {
			add(def[s])
		}
		return out
	}
	checked := 0
	for s := range g.node {
		for _, r := range reds(s) {
			rule := gp.G.Rules[r-1]
			if int64(len(rule.RHS)) != r2[r] {
				return false, fmt.Sprintf("rule %d has %d symbols in the grammar file, yyR2 says %d", r, len(rule.RHS), r2[r])
			}
			if want, ok := symNum(rule.LHS); !ok || -want != r1[r] {
				return false, fmt.Sprintf("rule %d: left-hand side %s does not match yyR1", r, rule.LHS)
			}
			layer := map[int]bool{s: true}
			for i := len(rule.RHS) - 1; i >= 0; i-- {
				want, ok := symNum(rule.RHS[i])
				if !ok {
					return false, fmt.Sprintf("rule %d: symbol %s has no number in the tables", r, rule.RHS[i])
				}
				for st := range layer {
					if chk[st] != want {
						return false, fmt.Sprintf("reduction of rule %d (%s) in state %d: the state %d entries below the top is %d with accessing symbol %d, but the rule has %s there", r, rule, s, len(rule.RHS)-1-i, st, chk[st], rule.RHS[i])
					}
				}
				next := map[int]bool{}
				for st := range layer {
					for p := range g.pred[st] {
						next[p] = true
					}
				}
				layer = next
				checked++
			}
		}
	}
	return true, fmt.Sprintf("%d goto pushes land in a state whose accessing symbol is the non-terminal reduced; %d (reduction, position) pairs: every state at position i of a rule's window has the rule's i-th symbol as accessing symbol", gotos, checked)
}

// acceptLemma (C06: a parse that returns 0 has reduced rule 1, whose action stores the root): on the tables as
// they stand, the accept action (a negative action in an exception group) occurs in exactly one reachable state A,
// only on the end-of-input token; A is pushed only on top of state 0, by the goto on the left-hand side of rule 1;
// and rule 1 is the only rule with that left-hand side. Needs the graph of lrDepthLemma.
func (dv *driver) acceptLemma() (bool, string) {
	g := dv.lrGraph
	if g == nil {
		return false, "the push graph is not available"
	}
	T := dv.tables
	def, exca, r1 := T["yyDef"], T["yyExca"], T["yyR1"]
	eof, _ := dv.constOf("yyEofCode")
	var acc []int
	for s := range g.node {
		if def[s] != -2 {
			continue
		}
		for i := 0; i+1 < len(exca); i += 2 {
			if exca[i] == -1 && exca[i+1] == int64(s) {
				for j := i + 2; j+1 < len(exca); j += 2 {
					if exca[j+1] < 0 {
						if exca[j] != eof {
							return false, fmt.Sprintf("state %d accepts on token %d, not only at the end of the input", s, exca[j])
						}
						acc = append(acc, s)
					}
					if exca[j] < 0 {
						break
					}
				}
				break
			}
		}
	}
	if len(acc) != 1 {
		return false, fmt.Sprintf("%d reachable states carry an accept action", len(acc))
	}
	a := acc[0]
	if len(g.pred[a]) != 1 || !g.pred[a][0] {
		return false, fmt.Sprintf("the accepting state %d is pushed on top of states other than 0", a)
	}
	if len(r1) < 2 {
		return false, "yyR1 too short"
	}
	start := r1[1]
	if g.gotoOf(0, start) != a {
		return false, fmt.Sprintf("the goto of state 0 on the left-hand side of rule 1 is not the accepting state %d", a)
	}
	for r := 2; r < len(r1); r++ {
		if r1[r] == start {
			return false, fmt.Sprintf("rule %d has the same left-hand side as rule 1", r)
		}
	}
	// no shift leads to a: a's accessing symbol is the start symbol
	if chk := T["yyChk"]; chk[a] != -start {
		return false, fmt.Sprintf("the accepting state's accessing symbol is %d, not the start symbol", chk[a])
	}
	return true, fmt.Sprintf("accept occurs only in state %d on end of input; that state is pushed only on state 0 by the goto on the left-hand side of rule 1, which no other rule shares: a parse that returns 0 has reduced rule 1", a)
}

// addDrv runs the driver engine on one grammar package and adds its obligations.
func (c *CheckCtx) addDrv(name string) {
	t0 := time.Now()
	prefix := "internal/" + name + ".(*yyParserImpl).Parse"
	se, err := newDrvEngine(c.W, name, []string{c.Prop})
	if err == nil {
		err = se.instantiate()
	}
	if err != nil {
		c.Extra = append(c.Extra, &Obligation{Name: prefix + "/subset/driver-engine", Class: "subset", Status: "unknown", Solver: "generator", Output: "the driver engine could not process the LR driver: " + err.Error()})
		return
	}
	dv := se.drv
	// table facts and the LR-depth lemma: exhaustive evaluation of the arrays as they stand
	for _, f := range dv.facts {
		st := "unsat"
		out := ""
		if !f.ok {
			st, out = "sat", "the fact does not hold on the tables as they stand in "+name+".go: "+f.why
		}
		c.Tables = append(c.Tables, fmt.Sprintf("%s table fact %s: %v (exhaustive evaluation)", name, f.name, f.ok))
		if !f.ok {
			c.Extra = append(c.Extra, &Obligation{Name: prefix + "/table/" + f.name, Class: "table", Status: st, Solver: "table-evaluation", Output: out, Props: []string{c.Prop}})
		}
	}
	if dv.lrAssumed {
		ok, detail := dv.lrDepthLemma()
		c.Tables = append(c.Tables, fmt.Sprintf("%s lr-depth: %v - %s", name, ok, detail))
		if !ok {
			c.Extra = append(c.Extra, &Obligation{Name: prefix + "/table/lr-depth", Class: "table", Status: "sat", Solver: "table-evaluation", Props: []string{c.Prop},
				Output: "the LR stack-discipline lemma fails on the tables as they stand: " + detail})
		}
		if ok && c.Prop == "C06" {
			ok2, d2 := dv.acceptLemma()
			c.Tables = append(c.Tables, fmt.Sprintf("%s accept-via-rule-1: %v - %s", name, ok2, d2))
			if !ok2 {
				c.Extra = append(c.Extra, &Obligation{Name: prefix + "/table/accept-via-rule-1", Class: "table", Status: "sat", Solver: "table-evaluation", Props: []string{c.Prop},
					Output: "on the tables as they stand a parse can return 0 without reducing rule 1: " + d2})
			}
		}
	}
	c.Tables = append(c.Tables, fmt.Sprintf("%s action-windows: %d actions slice exactly yyR2[k] stack entries (yyS[yypt-N : yypt+1] with N == yyR2[k]); mismatches: %d", name, dv.windowChecked, len(dv.windowErr)))
	for _, e := range dv.windowErr {
		c.Extra = append(c.Extra, &Obligation{Name: prefix + "/table/action-window", Class: "table", Status: "sat", Solver: "table-evaluation", Props: []string{c.Prop},
			Output: "the stack window of an action does not match its rule length: " + e})
	}
	for _, e := range dv.frameErr {
		c.Extra = append(c.Extra, &Obligation{Name: prefix + "/frame/action-switch", Class: "frame", Status: "sat", Solver: "frame-scan", Props: []string{c.Prop},
			Output: "the frame of the action switch is broken: " + e})
	}
	c.ExtraFuncs = append(c.ExtraFuncs, prefix+" (E-DRV)")
	se.buildRegions(16)
	for _, ct := range se.order {
		if ct.region.err != "" {
			c.Extra = append(c.Extra, &Obligation{Name: prefix + "/subset/region " + ct.name, Class: "subset", Status: "unknown", Solver: "generator", Output: "region left the modelled subset: " + ct.region.err})
		}
		for a := range ct.region.x.Assumed {
			c.assume(a)
		}
		for k := range ct.region.x.Callees {
			c.mu.Lock()
			c.Trusted["contract relied upon by the LR driver: "+k] = true
			c.mu.Unlock()
		}
	}
	rounds := se.houdini(16, 3000, false)
	edgeChecks, obls := se.finalRound(16, 6000)
	alive, total := 0, 0
	for _, ct := range se.order {
		for _, cd := range ct.cands {
			total++
			if cd.alive {
				alive++
			}
		}
	}
	served := 0
	for _, o := range obls {
		if o.Class == "inv" {
			if o.Status != "unsat" {
				c.Extra = append(c.Extra, o)
			}
			continue
		}
		if c.Prop == "C06" && !(strings.Contains(o.Name, "/post:") || strings.Contains(o.Name, "/pre:") || o.Class == "nilfunc" || o.Class == "dyn") {
			continue // C06 is served by the error-accounting postconditions and the preconditions of Error/Lex
		}
		served++
		o.Props = []string{c.Prop}
		c.Extra = append(c.Extra, o)
	}
	perCut := map[string][2]int{}
	for _, ct := range se.order {
		for _, e := range ct.region.edges {
			if !e.cand.alive {
				continue
			}
			v := perCut[e.target.name]
			v[0]++
			if ct.region.x.Sc.Obls[e.obl].Status == "unsat" {
				v[1]++
			}
			perCut[e.target.name] = v
		}
	}
	var cutNames []string
	for n := range perCut {
		cutNames = append(cutNames, n)
	}
	sort.Strings(cutNames)
	for _, n := range cutNames {
		v := perCut[n]
		st := "unsat"
		if v[0] != v[1] {
			st = "unknown"
		}
		c.Extra = append(c.Extra, &Obligation{Name: prefix + "/inv-inductive/" + n, Class: "inv", Status: st, Solver: "z3-new", Site: fmt.Sprintf("%d edge obligations", v[0]), Props: []string{c.Prop}})
	}
	var surv []string
	for _, ct := range se.order {
		for _, cd := range ct.cands {
			if cd.alive && ct.block != se.fn.Blocks[0] {
				surv = append(surv, ct.name+": "+cd.src)
			}
		}
	}
	if len(surv) > 12 {
		surv = surv[:12]
	}
	var keys []string
	for k := range dv.actionKeys {
		keys = append(keys, k)
	}
	c.CoverageExtra["lr_driver_"+name] = map[string]interface{}{
		"function":                 prefix + " (generated by goyacc, verified as generated; go/ssa naive form; the " + fmt.Sprint(len(dv.ruleEntry)) + " action regions are abstracted by their frame, computed from their code in this run)",
		"ssa_blocks":               len(se.fn.Blocks),
		"action_blocks":            len(dv.inAction),
		"cut_points":               len(se.order),
		"cut_to_cut_paths":         se.totalPaths(),
		"candidate_invariants":     total,
		"surviving_invariants":     alive,
		"surviving_sample":         surv,
		"houdini_rounds":           rounds,
		"edge_obligations_proved":  edgeChecks,
		"obligations_for_property": served,
		"action_frame_keys":        len(keys),
		"table_facts":              len(dv.facts),
		"seconds":                  time.Since(t0).Seconds(),
	}
	c.assume("E-DRV: the invariant of each cut point of the LR driver is inferred (Houdini over a template in the contract file) and then proved inductive in this run; the inference itself is not trusted")
	c.assume("E-DRV: the semantic actions are abstracted by their frame (no store to a driver local other than yyVAL/yyDollar, to a stack slot's state field or to the yyParserImpl: checked on the code of every action in this run; heap keys in their write set are havocked); their own obligations are E-GRAM's")
}
