package main

import (
	"fmt"
	"sort"
	"strings"
	"time"
)

// lrDepthLemma decides, on the tables as they stand in the generated file, the one fact about the
// driver that is a property of goyacc's construction: whenever the driver reduces by rule r in state
// s, the stack holds at least yyR2[r] states above its bottom entry. It is a least fixpoint over the
// abstract driver: Gr is the set of state pairs (b, s') such that s' can be pushed directly on top of b.
//   shift:   for every state s in Gr's node set and every terminal t (including `error`): the table
//            look-up the driver performs (yyPact/yyAct/yyChk) - when it yields a shift to s', (s, s') is in Gr;
//   reduce:  for every node s and every rule r the driver can choose in s (yyDef[s] > 0, or an action of
//            s's exception group): for every b from which s is reached by a path of yyR2[r] edges of Gr,
//            s' = goto(b, yyR1[r]) as the driver computes it (yyPgo/yyAct/yyChk), and (b, s') is in Gr.
// Every stack the real driver builds is a path of Gr from state 0 (induction over its steps: a shift and
// a goto push along an edge, error recovery pops and then shifts `error`), so depth(s) = the shortest
// path from state 0 to s in Gr is a lower bound of the stack index of s. The lemma holds iff
// depth(s) >= yyR2[r] for every reduction (s, r). The simulator is a model of the driver's stack
// discipline (class `table`, reported separately, never counted as a discharged obligation).
func (dv *driver) lrDepthLemma() (ok bool, detail string) {
	T := dv.tables
	pact, act, chk, def, exca, r1, r2, pgo := T["yyPact"], T["yyAct"], T["yyChk"], T["yyDef"], T["yyExca"], T["yyR1"], T["yyR2"], T["yyPgo"]
	n := len(pact)
	if n == 0 || len(def) != n || len(chk) != n {
		return false, "tables missing or of different lengths"
	}
	last := int64(len(act))
	flag, _ := dv.constOf("yyFlag")
	// number of terminals: the largest token number that occurs in yyChk of any state reachable by a shift is enough;
	// use every value 0..maxTok where maxTok is the largest non-negative yyChk entry
	maxTok := int64(0)
	for _, c := range chk {
		if c > maxTok {
			maxTok = c
		}
	}
	shift := func(s int, t int64) int {
		b := pact[s]
		if b <= flag {
			return -1
		}
		k := b + t
		if k < 0 || k >= last {
			return -1
		}
		a := act[k]
		if a < 0 || a >= int64(n) || chk[a] != t {
			return -1
		}
		return int(a)
	}
	gotoOf := func(b int, a int64) int {
		if a < 0 || a >= int64(len(pgo)) {
			return -1
		}
		g := pgo[a]
		j := g + int64(b) + 1
		var st int64
		if j >= last || j < 0 {
			if g < 0 || g >= last {
				return -1
			}
			st = act[g]
		} else {
			st = act[j]
			if st < 0 || st >= int64(n) || chk[st] != -a {
				if g < 0 || g >= last {
					return -1
				}
				st = act[g]
			}
		}
		if st < 0 || st >= int64(n) {
			return -1
		}
		return int(st)
	}
	// reductions available in a state
	reds := make([][]int64, n)
	for s := 0; s < n; s++ {
		seen := map[int64]bool{}
		add := func(r int64) {
			if r > 0 && r < int64(len(r2)) && !seen[r] {
				seen[r] = true
				reds[s] = append(reds[s], r)
			}
		}
		if def[s] == -2 {
			for i := 0; i+1 < len(exca); i += 2 {
				if exca[i] == -1 && exca[i+1] == int64(s) {
					for j := i + 2; j+1 < len(exca); j += 2 {
						add(exca[j+1])
						if exca[j] < 0 {
							break
						}
					}
					break
				}
			}
		} else {
			add(def[s])
		}
	}
	succ := make([]map[int]bool, n)
	pred := make([]map[int]bool, n)
	for i := range succ {
		succ[i], pred[i] = map[int]bool{}, map[int]bool{}
	}
	node := map[int]bool{0: true}
	addEdge := func(b, s int) bool {
		if succ[b][s] {
			return false
		}
		succ[b][s] = true
		pred[s][b] = true
		node[s] = true
		return true
	}
	for changed := true; changed; {
		changed = false
		var ns []int
		for s := range node {
			ns = append(ns, s)
		}
		sort.Ints(ns)
		for _, s := range ns {
			for t := int64(0); t <= maxTok; t++ {
				if a := shift(s, t); a >= 0 && addEdge(s, a) {
					changed = true
				}
			}
			for _, r := range reds[s] {
				// states k edges back from s
				back := map[int]bool{s: true}
				for k := int64(0); k < r2[r]; k++ {
					nb := map[int]bool{}
					for x := range back {
						for p := range pred[x] {
							nb[p] = true
						}
					}
					back = nb
				}
				for b := range back {
					if g := gotoOf(b, r1[r]); g >= 0 && addEdge(b, g) {
						changed = true
					}
				}
			}
		}
	}
	// shortest distance from state 0
	depth := make([]int64, n)
	for i := range depth {
		depth[i] = -1
	}
	depth[0] = 0
	queue := []int{0}
	for len(queue) > 0 {
		s := queue[0]
		queue = queue[1:]
		for t := range succ[s] {
			if depth[t] < 0 {
				depth[t] = depth[s] + 1
				queue = append(queue, t)
			}
		}
	}
	nred, edges := 0, 0
	for s := range node {
		edges += len(succ[s])
		for _, r := range reds[s] {
			nred++
			if depth[s] < r2[r] {
				return false, fmt.Sprintf("state %d can reduce rule %d (length %d) at stack depth %d", s, r, r2[r], depth[s])
			}
		}
	}
	dv.lrGraph = &lrGraph{succ: succ, pred: pred, node: node, gotoOf: gotoOf}
	return true, fmt.Sprintf("%d states reachable, %d push edges, %d (state, rule) reductions: every reduction finds at least yyR2[r] entries above the bottom of the stack", len(node), edges, nred)
}

type lrGraph struct {
	succ, pred []map[int]bool
	node       map[int]bool
	gotoOf     func(b int, a int64) int
}

// acceptLemma (C06: a parse that returns 0 has reduced rule 1, whose action stores the root): on the tables as
// they stand, the accept action (a negative action in an exception group) occurs in exactly one reachable state A,
// only on the end-of-input token; A is pushed only on top of state 0, by the goto on the left-hand side of rule 1;
// and rule 1 is the only rule with that left-hand side. Needs the graph of lrDepthLemma.
func (dv *driver) acceptLemma() (bool, string) {
	g := dv.lrGraph
	if g == nil {
		return false, "the push graph is not available"
	}
	T := dv.tables
	def, exca, r1 := T["yyDef"], T["yyExca"], T["yyR1"]
	eof, _ := dv.constOf("yyEofCode")
	var acc []int
	for s := range g.node {
		if def[s] != -2 {
			continue
		}
		for i := 0; i+1 < len(exca); i += 2 {
			if exca[i] == -1 && exca[i+1] == int64(s) {
				for j := i + 2; j+1 < len(exca); j += 2 {
					if exca[j+1] < 0 {
						if exca[j] != eof {
							return false, fmt.Sprintf("state %d accepts on token %d, not only at the end of the input", s, exca[j])
						}
						acc = append(acc, s)
					}
					if exca[j] < 0 {
						break
					}
				}
				break
			}
		}
	}
	if len(acc) != 1 {
		return false, fmt.Sprintf("%d reachable states carry an accept action", len(acc))
	}
	a := acc[0]
	if len(g.pred[a]) != 1 || !g.pred[a][0] {
		return false, fmt.Sprintf("the accepting state %d is pushed on top of states other than 0", a)
	}
	if len(r1) < 2 {
		return false, "yyR1 too short"
	}
	start := r1[1]
	if g.gotoOf(0, start) != a {
		return false, fmt.Sprintf("the goto of state 0 on the left-hand side of rule 1 is not the accepting state %d", a)
	}
	for r := 2; r < len(r1); r++ {
		if r1[r] == start {
			return false, fmt.Sprintf("rule %d has the same left-hand side as rule 1", r)
		}
	}
	// no shift leads to a: a's accessing symbol is the start symbol
	if chk := T["yyChk"]; chk[a] != -start {
		return false, fmt.Sprintf("the accepting state's accessing symbol is %d, not the start symbol", chk[a])
	}
	return true, fmt.Sprintf("accept occurs only in state %d on end of input; that state is pushed only on state 0 by the goto on the left-hand side of rule 1, which no other rule shares: a parse that returns 0 has reduced rule 1", a)
}

// addDrv runs the driver engine on one grammar package and adds its obligations.
func (c *CheckCtx) addDrv(name string) {
	t0 := time.Now()
	prefix := "internal/" + name + ".(*yyParserImpl).Parse"
	se, err := newDrvEngine(c.W, name, []string{c.Prop})
	if err == nil {
		err = se.instantiate()
	}
	if err != nil {
		c.Extra = append(c.Extra, &Obligation{Name: prefix + "/subset/driver-engine", Class: "subset", Status: "unknown", Solver: "generator", Output: "the driver engine could not process the LR driver: " + err.Error()})
		return
	}
	dv := se.drv
	// table facts and the LR-depth lemma: exhaustive evaluation of the arrays as they stand
	for _, f := range dv.facts {
		st := "unsat"
		out := ""
		if !f.ok {
			st, out = "sat", "the fact does not hold on the tables as they stand in "+name+".go: "+f.why
		}
		c.Tables = append(c.Tables, fmt.Sprintf("%s table fact %s: %v (exhaustive evaluation)", name, f.name, f.ok))
		if !f.ok {
			c.Extra = append(c.Extra, &Obligation{Name: prefix + "/table/" + f.name, Class: "table", Status: st, Solver: "table-evaluation", Output: out, Props: []string{c.Prop}})
		}
	}
	if dv.lrAssumed {
		ok, detail := dv.lrDepthLemma()
		c.Tables = append(c.Tables, fmt.Sprintf("%s lr-depth: %v - %s", name, ok, detail))
		if !ok {
			c.Extra = append(c.Extra, &Obligation{Name: prefix + "/table/lr-depth", Class: "table", Status: "sat", Solver: "table-evaluation", Props: []string{c.Prop},
				Output: "the LR stack-discipline lemma fails on the tables as they stand: " + detail})
		}
		if ok && c.Prop == "C06" {
			ok2, d2 := dv.acceptLemma()
			c.Tables = append(c.Tables, fmt.Sprintf("%s accept-via-rule-1: %v - %s", name, ok2, d2))
			if !ok2 {
				c.Extra = append(c.Extra, &Obligation{Name: prefix + "/table/accept-via-rule-1", Class: "table", Status: "sat", Solver: "table-evaluation", Props: []string{c.Prop},
					Output: "on the tables as they stand a parse can return 0 without reducing rule 1: " + d2})
			}
		}
	}
	c.Tables = append(c.Tables, fmt.Sprintf("%s action-windows: %d actions slice exactly yyR2[k] stack entries (yyS[yypt-N : yypt+1] with N == yyR2[k]); mismatches: %d", name, dv.windowChecked, len(dv.windowErr)))
	for _, e := range dv.windowErr {
		c.Extra = append(c.Extra, &Obligation{Name: prefix + "/table/action-window", Class: "table", Status: "sat", Solver: "table-evaluation", Props: []string{c.Prop},
			Output: "the stack window of an action does not match its rule length: " + e})
	}
	for _, e := range dv.frameErr {
		c.Extra = append(c.Extra, &Obligation{Name: prefix + "/frame/action-switch", Class: "frame", Status: "sat", Solver: "frame-scan", Props: []string{c.Prop},
			Output: "the frame of the action switch is broken: " + e})
	}
	c.ExtraFuncs = append(c.ExtraFuncs, prefix+" (E-DRV)")
	se.buildRegions(16)
	for _, ct := range se.order {
		if ct.region.err != "" {
			c.Extra = append(c.Extra, &Obligation{Name: prefix + "/subset/region " + ct.name, Class: "subset", Status: "unknown", Solver: "generator", Output: "region left the modelled subset: " + ct.region.err})
		}
		for a := range ct.region.x.Assumed {
			c.assume(a)
		}
		for k := range ct.region.x.Callees {
			c.mu.Lock()
			c.Trusted["contract relied upon by the LR driver: "+k] = true
			c.mu.Unlock()
		}
	}
	rounds := se.houdini(16, 3000, false)
	edgeChecks, obls := se.finalRound(16, 6000)
	alive, total := 0, 0
	for _, ct := range se.order {
		for _, cd := range ct.cands {
			total++
			if cd.alive {
				alive++
			}
		}
	}
	served := 0
	for _, o := range obls {
		if o.Class == "inv" {
			if o.Status != "unsat" {
				c.Extra = append(c.Extra, o)
			}
			continue
		}
		if c.Prop == "C06" && !(strings.Contains(o.Name, "/post:") || strings.Contains(o.Name, "/pre:") || o.Class == "nilfunc" || o.Class == "dyn") {
			continue // C06 is served by the error-accounting postconditions and the preconditions of Error/Lex
		}
		served++
		o.Props = []string{c.Prop}
		c.Extra = append(c.Extra, o)
	}
	perCut := map[string][2]int{}
	for _, ct := range se.order {
		for _, e := range ct.region.edges {
			if !e.cand.alive {
				continue
			}
			v := perCut[e.target.name]
			v[0]++
			if ct.region.x.Sc.Obls[e.obl].Status == "unsat" {
				v[1]++
			}
			perCut[e.target.name] = v
		}
	}
	var cutNames []string
	for n := range perCut {
		cutNames = append(cutNames, n)
	}
	sort.Strings(cutNames)
	for _, n := range cutNames {
		v := perCut[n]
		st := "unsat"
		if v[0] != v[1] {
			st = "unknown"
		}
		c.Extra = append(c.Extra, &Obligation{Name: prefix + "/inv-inductive/" + n, Class: "inv", Status: st, Solver: "z3-new", Site: fmt.Sprintf("%d edge obligations", v[0]), Props: []string{c.Prop}})
	}
	var surv []string
	for _, ct := range se.order {
		for _, cd := range ct.cands {
			if cd.alive && ct.block != se.fn.Blocks[0] {
				surv = append(surv, ct.name+": "+cd.src)
			}
		}
	}
	if len(surv) > 12 {
		surv = surv[:12]
	}
	var keys []string
	for k := range dv.actionKeys {
		keys = append(keys, k)
	}
	c.CoverageExtra["lr_driver_"+name] = map[string]interface{}{
		"function":                 prefix + " (generated by goyacc, verified as generated; go/ssa naive form; the " + fmt.Sprint(len(dv.ruleEntry)) + " action regions are abstracted by their frame, computed from their code in this run)",
		"ssa_blocks":               len(se.fn.Blocks),
		"action_blocks":            len(dv.inAction),
		"cut_points":               len(se.order),
		"cut_to_cut_paths":         se.totalPaths(),
		"candidate_invariants":     total,
		"surviving_invariants":     alive,
		"surviving_sample":         surv,
		"houdini_rounds":           rounds,
		"edge_obligations_proved":  edgeChecks,
		"obligations_for_property": served,
		"action_frame_keys":        len(keys),
		"table_facts":              len(dv.facts),
		"seconds":                  time.Since(t0).Seconds(),
	}
	c.assume("E-DRV: the invariant of each cut point of the LR driver is inferred (Houdini over a template in the contract file) and then proved inductive in this run; the inference itself is not trusted")
	c.assume("E-DRV: the semantic actions are abstracted by their frame (no store to a driver local other than yyVAL/yyDollar, to a stack slot's state field or to the yyParserImpl: checked on the code of every action in this run; heap keys in their write set are havocked); their own obligations are E-GRAM's")
}
