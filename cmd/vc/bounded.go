package main

// Bounded stand-ins: runs of the real code over a stated finite family, injected into the
// repository package with `go test -overlay`. They are reported under `bounded_checks` and never
// counted among the discharged obligations.

import (
	"encoding/json"
	"fmt"
	"os"
	"os/exec"
	"path/filepath"
	"regexp"
	"strings"
	"time"
)

var reBFail = regexp.MustCompile(`^BFAIL kind=(\S+) version=(\S+) cb=(\S+) input=("(?:[^"\\]|\\.)*") :: (.*)$`)
var reBounded = regexp.MustCompile(`^BOUNDED name=(\S+) (.*)$`)

// runBoundedHarness executes one harness and turns its output into bounded checks.
func (c *CheckCtx) runBoundedHarness(pkgDir, file, run string, env []string, boundDesc string, kinds ...string) {
	src := filepath.Join(verifDir, "replay", file)
	tmp, err := os.MkdirTemp("", "vcbounded")
	if err != nil {
		c.Bounded = append(c.Bounded, BoundedCheck{Name: "harness/" + file, Bound: boundDesc, Failed: 1, Detail: err.Error()})
		return
	}
	defer os.RemoveAll(tmp)
	target := filepath.Join(repoDir, pkgDir, "zz_vc_bounded_test.go")
	ovData, _ := json.Marshal(map[string]interface{}{"Replace": map[string]string{target: src}})
	ovPath := filepath.Join(tmp, "overlay.json")
	os.WriteFile(ovPath, ovData, 0o644)
	// known hangs: passed to the harness so that it runs one canary per pattern instead of all instances
	var skip []string
	for _, fd := range loadFindings() {
		if fd.Status == "known" && fd.Property == c.Prop && strings.HasPrefix(fd.Obligation, "bounded/hang/") {
			skip = append(skip, strings.TrimPrefix(fd.Obligation, "bounded/"))
		}
	}
	args := []string{"test", "-overlay", ovPath, "-v", "-vet=off", "-count=1", "-timeout", "1500s", "-run", run, "./" + pkgDir}
	cmd := exec.Command("go", args...)
	cmd.Dir = repoDir
	cmd.Env = append(os.Environ(), "GOFLAGS=-mod=mod", "GOPROXY=off", "GOSUMDB=off", "GOTOOLCHAIN=local", fmt.Sprintf("VC_SEED=%d", c.Seed), "VC_SKIP_GLOBS="+strings.Join(skip, "\x1f"))
	cmd.Env = append(cmd.Env, env...)
	t0 := time.Now()
	out, runErr := cmd.CombinedOutput()
	summary := false
	for _, l := range strings.Split(string(out), "\n") {
		l = strings.TrimSpace(l)
		if m := reBFail.FindStringSubmatch(l); m != nil {
			if len(kinds) > 0 {
				mine := false
				for _, k := range kinds {
					if k == m[1] {
						mine = true
					}
				}
				if !mine {
					continue // this kind of failure belongs to another property's check
				}
			}
			name := fmt.Sprintf("%s/%s/%s", m[1], m[2], m[4])
			c.Bounded = append(c.Bounded, BoundedCheck{Name: name, Bound: boundDesc, Cases: 1, Failed: 1, Detail: fmt.Sprintf("callback=%s: %s", m[3], m[5])})
			continue
		}
		if m := reBounded.FindStringSubmatch(l); m != nil {
			summary = true
			var cases int
			for _, kv := range strings.Fields(m[2]) {
				if strings.HasPrefix(kv, "cases=") {
					fmt.Sscan(strings.TrimPrefix(kv, "cases="), &cases)
				}
			}
			c.Bounded = append(c.Bounded, BoundedCheck{Name: m[1] + " (summary)", Bound: boundDesc + "; " + m[2], Cases: cases, Failed: 0, Detail: fmt.Sprintf("%.1fs", time.Since(t0).Seconds())})
		}
	}
	if !summary {
		d := truncate(string(out), 3000)
		if runErr != nil {
			d = runErr.Error() + ": " + d
		}
		c.Bounded = append(c.Bounded, BoundedCheck{Name: "harness/" + file + "/completes", Bound: boundDesc, Failed: 1, Detail: "the bounded run did not complete: " + d})
	}
}
