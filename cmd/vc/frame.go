package main

// E-FRAME: modifies/reads clauses by ownership.
//
// Go without unsafe/reflect can only write objects reachable from arguments, globals or its
// own allocations. For a set of root functions the engine computes, by a greatest-fixpoint
// dataflow over go/ssa (context-insensitive except for the dynamic type of an ast.Visitor
// argument), which pointer-like values are *fresh* — derived from an allocation made inside
// the call tree — and then reports every write whose base object is not fresh, as
// (heap key, site). A `frame` clause of a contract file lists the keys a root family may
// write on non-fresh objects; anything else fails a named obligation.

import (
	"fmt"
	"go/token"
	"go/types"
	"sort"
	"strings"

	"golang.org/x/tools/go/ssa"
)

type fnode struct {
	fn *ssa.Function
	vt string // concrete dynamic type of the Visitor-typed parameter ("" = unknown)
}

type frameWrite struct {
	Key   string
	Fn    string
	Site  string
	Expr  string
	Fresh bool
	What  string // store | append | copy | mapupdate | delete
	ViaGlobal string // non-empty: the written object may be reachable from this package-level variable
}

type frameRead struct {
	Key  string
	Fn   string
	Site string
}

type frameAn struct {
	w            *World
	roots        map[fnode]bool
	nodes        map[fnode]bool
	order        []fnode
	paramFresh   map[string]bool // node|paramIndex -> false if some call site passes a non-fresh value
	contentFresh map[string]bool // heap key -> false if a non-fresh pointer is ever stored
	retFresh     map[fnode]bool
	memo         map[string]bool
	visiting     map[string]bool
	External     map[string]bool // calls treated as caller code / stdlib
	Unmodelled   []string
	Writes       []frameWrite
	Reads        []frameRead
	GlobalWrites []frameWrite
	// taint: may the value derive from a package-level variable? (least fixpoint)
	paramGlob map[string]string
	keyGlob   map[string]string
	retGlob   map[fnode]string
	gmemo     map[string]string
	gvisiting map[string]bool
}

func (n fnode) String() string {
	if n.vt != "" {
		return n.fn.String() + "<" + n.vt + ">"
	}
	return n.fn.String()
}

func visitorIface(w *World) *types.Interface {
	p := w.PkgByPath[modPath+"/pkg/ast"]
	if p == nil {
		return nil
	}
	o := p.Types.Scope().Lookup("Visitor")
	if o == nil {
		return nil
	}
	return o.Type().Underlying().(*types.Interface)
}

func isVisitorType(t types.Type) bool {
	n, ok := t.(*types.Named)
	return ok && n.Obj().Pkg() != nil && n.Obj().Pkg().Path() == modPath+"/pkg/ast" && n.Obj().Name() == "Visitor"
}

func pointerLike(t types.Type) bool {
	switch u := t.Underlying().(type) {
	case *types.Pointer, *types.Slice, *types.Map, *types.Interface, *types.Signature, *types.Chan:
		return true
	case *types.Struct:
		for i := 0; i < u.NumFields(); i++ {
			if pointerLike(u.Field(i).Type()) {
				return true
			}
		}
	case *types.Tuple:
		for i := 0; i < u.Len(); i++ {
			if pointerLike(u.At(i).Type()) {
				return true
			}
		}
	}
	return false
}

func newFrameAn(w *World, roots []*ssa.Function) *frameAn {
	a := &frameAn{w: w, roots: map[fnode]bool{}, nodes: map[fnode]bool{}, paramFresh: map[string]bool{}, contentFresh: map[string]bool{},
		retFresh: map[fnode]bool{}, External: map[string]bool{}, paramGlob: map[string]string{}, keyGlob: map[string]string{}, retGlob: map[fnode]string{}}
	for _, r := range roots {
		n := fnode{r, a.selfVisitor(r)}
		a.roots[n] = true
		a.addNode(n)
	}
	// discover reachable nodes
	for i := 0; i < len(a.order); i++ {
		n := a.order[i]
		a.forEachCall(n, func(site ssa.CallInstruction, callee fnode) { a.addNode(callee) })
	}
	return a
}

// selfVisitor: a method of a type implementing ast.Visitor is analysed with itself as the visitor.
func (a *frameAn) selfVisitor(fn *ssa.Function) string {
	return ""
}

func (a *frameAn) addNode(n fnode) {
	if a.nodes[n] || n.fn == nil || n.fn.Blocks == nil {
		return
	}
	if !strings.HasPrefix(funcPkgPath(n.fn), modPath) {
		return
	}
	a.nodes[n] = true
	a.order = append(a.order, n)
}

// visitorParam returns the index of the first parameter of type ast.Visitor, or -1.
func visitorParam(fn *ssa.Function) int {
	for i, p := range fn.Params {
		if isVisitorType(p.Type()) {
			return i
		}
	}
	return -1
}

// concreteOf: the concrete dynamic type of an interface value if statically evident.
func (a *frameAn) concreteOf(n fnode, v ssa.Value) string {
	switch x := v.(type) {
	case *ssa.MakeInterface:
		return x.X.Type().String()
	case *ssa.Parameter:
		if vp := visitorParam(n.fn); vp >= 0 && n.fn.Params[vp] == x {
			return n.vt
		}
	case *ssa.ChangeInterface:
		return a.concreteOf(n, x.X)
	case *ssa.Phi:
		t := ""
		for i, e := range x.Edges {
			c := a.concreteOf(n, e)
			if i == 0 {
				t = c
			} else if c != t {
				return ""
			}
		}
		return t
	}
	return ""
}

func (a *frameAn) typeByString(s string) types.Type {
	for _, p := range a.w.PkgByPath {
		_ = p
	}
	return nil
}

func (a *frameAn) forEachCall(n fnode, f func(site ssa.CallInstruction, callee fnode)) {
	for _, b := range n.fn.Blocks {
		for _, in := range b.Instrs {
			switch i := in.(type) {
			case *ssa.MakeClosure:
				if fn, ok := i.Fn.(*ssa.Function); ok {
					f(nil, fnode{fn, ""})
				}
			case ssa.CallInstruction:
				cc := i.Common()
				if _, ok := cc.Value.(*ssa.Builtin); ok {
					continue
				}
				for _, c := range a.resolve(n, cc) {
					f(i, c)
				}
			}
		}
	}
}

// resolve returns the callee nodes of a call.
func (a *frameAn) resolve(n fnode, cc *ssa.CallCommon) []fnode {
	// visitor type passed on to the callee
	passVT := func(callee *ssa.Function, args []ssa.Value, recvShift int) string {
		vp := visitorParam(callee)
		if vp < 0 {
			return ""
		}
		ai := vp - recvShift
		if ai < 0 || ai >= len(args) {
			return ""
		}
		return a.concreteOf(n, args[ai])
	}
	if cc.IsInvoke() {
		ct := a.concreteOf(n, cc.Value)
		var out []fnode
		if ct != "" {
			// devirtualise
			for fn := range a.w.allFuncs {
				if fn.Signature.Recv() == nil || fn.Name() != cc.Method.Name() || fn.Blocks == nil {
					continue
				}
				if fn.Signature.Recv().Type().String() == ct {
					out = append(out, fnode{fn, passVT(fn, cc.Args, 1)})
				}
			}
			if len(out) > 0 {
				return out
			}
		}
		iface, _ := cc.Value.Type().Underlying().(*types.Interface)
		if iface == nil {
			return nil
		}
		if isVisitorType(cc.Value.Type()) {
			// a visitor of unknown dynamic type is caller code
			a.External["ast.Visitor of unknown dynamic type (caller's visitor): assumed passive"] = true
			return nil
		}
		found := false
		for fn := range a.w.allFuncs {
			if fn.Signature.Recv() == nil || fn.Name() != cc.Method.Name() || fn.Blocks == nil {
				continue
			}
			if !strings.HasPrefix(funcPkgPath(fn), modPath) {
				continue
			}
			if types.Implements(fn.Signature.Recv().Type(), iface) {
				out = append(out, fnode{fn, passVT(fn, cc.Args, 1)})
				found = true
			}
		}
		if !found {
			a.External["interface method "+cc.Value.Type().String()+"."+cc.Method.Name()+" (no module implementation): assumed not to write library memory"] = true
		}
		sort.Slice(out, func(i, j int) bool { return out[i].String() < out[j].String() })
		return out
	}
	if fn := cc.StaticCallee(); fn != nil {
		if !strings.HasPrefix(funcPkgPath(fn), modPath) {
			a.External["stdlib "+fn.String()] = true
			return nil
		}
		shift := 0
		return []fnode{{fn, passVT(fn, cc.Args, shift)}}
	}
	a.External["call through function value "+cc.Value.Name()+" in "+n.fn.String()+": caller code, assumed passive"] = true
	return nil
}

func pkey(n fnode, i int) string { return fmt.Sprintf("%s|%d", n, i) }

// ---------------------------------------------------------------------------
// freshness

func (a *frameAn) fresh(n fnode, v ssa.Value) bool {
	k := n.String() + "|" + v.Name() + fmt.Sprintf("|%p", v)
	if r, ok := a.memo[k]; ok {
		return r
	}
	if a.visiting[k] {
		return true // optimistic inside cycles (greatest fixpoint)
	}
	a.visiting[k] = true
	r := a.fresh1(n, v)
	delete(a.visiting, k)
	a.memo[k] = r
	return r
}

func (a *frameAn) keyFresh(k string) bool {
	f, ok := a.contentFresh[k]
	return !ok || f
}

func (a *frameAn) addrKey(addr ssa.Value) []string {
	out := map[string]bool{}
	a.w.addrKeys(addr, out)
	return sortedKeys(out)
}

func (a *frameAn) fresh1(n fnode, v ssa.Value) bool {
	switch x := v.(type) {
	case *ssa.Alloc, *ssa.MakeSlice, *ssa.MakeMap, *ssa.MakeChan:
		return true
	case *ssa.Const:
		return true
	case *ssa.Function:
		return true
	case *ssa.MakeClosure:
		return true
	case *ssa.Global:
		return false
	case *ssa.FreeVar:
		for i, fv := range n.fn.FreeVars {
			if fv == x {
				f, ok := a.paramFresh[pkey(n, 1000+i)]
				return !ok || f
			}
		}
		return false
	case *ssa.Parameter:
		if a.roots[n] {
			return false
		}
		for i, p := range n.fn.Params {
			if p == x {
				f, ok := a.paramFresh[pkey(n, i)]
				return !ok || f
			}
		}
		return false
	case *ssa.FieldAddr:
		return a.fresh(n, x.X)
	case *ssa.IndexAddr:
		return a.fresh(n, x.X)
	case *ssa.Field:
		return a.fresh(n, x.X)
	case *ssa.Index:
		return a.fresh(n, x.X)
	case *ssa.Slice:
		return a.fresh(n, x.X)
	case *ssa.ChangeType:
		return a.fresh(n, x.X)
	case *ssa.ChangeInterface:
		return a.fresh(n, x.X)
	case *ssa.MakeInterface:
		if !pointerLike(x.X.Type()) {
			return true
		}
		return a.fresh(n, x.X)
	case *ssa.TypeAssert:
		return a.fresh(n, x.X)
	case *ssa.Convert:
		// string <-> []byte conversions allocate
		if _, ok := x.Type().Underlying().(*types.Slice); ok {
			if b, ok := x.X.Type().Underlying().(*types.Basic); ok && b.Info()&types.IsString != 0 {
				return true
			}
		}
		if !pointerLike(x.Type()) {
			return true
		}
		return a.fresh(n, x.X)
	case *ssa.Extract:
		return a.fresh(n, x.Tuple)
	case *ssa.Phi:
		for _, e := range x.Edges {
			if !a.fresh(n, e) {
				return false
			}
		}
		return true
	case *ssa.UnOp:
		if x.Op != token.MUL {
			return true
		}
		if !pointerLike(x.Type()) {
			return true
		}
		// load: fresh if the container is fresh and only fresh values are ever stored under the key
		if !a.fresh(n, x.X) {
			return false
		}
		for _, k := range a.addrKey(x.X) {
			if !a.keyFresh(k) {
				return false
			}
		}
		return true
	case *ssa.Lookup:
		if !pointerLike(x.Type()) {
			return true
		}
		return a.fresh(n, x.X) && a.keyFresh("M:"+typeName(x.X.Type()))
	case *ssa.Next:
		return a.fresh(n, x.Iter)
	case *ssa.Range:
		return a.fresh(n, x.X)
	case *ssa.BinOp:
		return true
	case *ssa.Call:
		cc := x.Common()
		if bi, ok := cc.Value.(*ssa.Builtin); ok {
			switch bi.Name() {
			case "append":
				return a.fresh(n, cc.Args[0])
			}
			return true
		}
		if !pointerLike(x.Type()) {
			return true
		}
		callees := a.resolve(n, cc)
		if len(callees) == 0 {
			// external: results of the stdlib functions used here are new values (strings, errors)
			return stdlibReturnsFresh(cc)
		}
		for _, c := range callees {
			if !a.nodes[c] {
				return false
			}
			f, ok := a.retFresh[c]
			if ok && !f {
				return false
			}
		}
		return true
	}
	return false
}

func stdlibReturnsFresh(cc *ssa.CallCommon) bool {
	if fn := cc.StaticCallee(); fn != nil {
		switch fn.String() {
		case "strings.SplitN", "strings.Split", "errors.New", "fmt.Errorf", "strconv.AppendInt":
			return true
		case "bytes.TrimSpace", "bytes.Trim", "bytes.TrimLeft", "bytes.TrimRight", "bytes.TrimPrefix", "bytes.TrimSuffix":
			return false // sub-slices of the argument
		}
		if strings.HasPrefix(fn.String(), "strconv.") || strings.HasPrefix(fn.String(), "strings.") || strings.HasPrefix(fn.String(), "fmt.") {
			return true
		}
	}
	return false
}

func (a *frameAn) setKey(k string, changed *bool) {
	if a.keyFresh(k) {
		a.contentFresh[k] = false
		*changed = true
	}
}

// run iterates to the greatest fixpoint and then collects writes and reads.
func (a *frameAn) run() {
	for iter := 0; iter < 50; iter++ {
		a.memo = map[string]bool{}
		a.visiting = map[string]bool{}
		a.gmemo = map[string]string{}
		a.gvisiting = map[string]bool{}
		changed := false
		for _, n := range a.order {
			a.step(n, &changed)
			a.gstep(n, &changed)
		}
		if !changed {
			break
		}
	}
	a.memo = map[string]bool{}
	a.visiting = map[string]bool{}
	a.gmemo = map[string]string{}
	a.gvisiting = map[string]bool{}
	for _, n := range a.order {
		a.collect(n)
	}
}

func (a *frameAn) step(n fnode, changed *bool) {
	for _, b := range n.fn.Blocks {
		for _, in := range b.Instrs {
			switch i := in.(type) {
			case *ssa.Store:
				if pointerLike(i.Val.Type()) && !a.fresh(n, i.Val) {
					for _, k := range a.addrKey(i.Addr) {
						a.setKey(k, changed)
					}
				}
			case *ssa.MakeClosure:
				if fn, ok := i.Fn.(*ssa.Function); ok {
					c := fnode{fn, ""}
					for bi, bv := range i.Bindings {
						if !a.fresh(n, bv) {
							if f, ok := a.paramFresh[pkey(c, 1000+bi)]; !ok || f {
								a.paramFresh[pkey(c, 1000+bi)] = false
								*changed = true
							}
						}
					}
				}
			case *ssa.MapUpdate:
				if (pointerLike(i.Value.Type()) && !a.fresh(n, i.Value)) || (pointerLike(i.Key.Type()) && !a.fresh(n, i.Key)) {
					a.setKey("M:"+typeName(i.Map.Type()), changed)
				}
			case *ssa.Return:
				for _, r := range i.Results {
					if pointerLike(r.Type()) && !a.fresh(n, r) {
						if f, ok := a.retFresh[n]; !ok || f {
							a.retFresh[n] = false
							*changed = true
						}
					}
				}
			case ssa.CallInstruction:
				cc := i.Common()
				if bi, ok := cc.Value.(*ssa.Builtin); ok {
					if bi.Name() == "append" || bi.Name() == "copy" {
						if sl, ok := cc.Args[0].Type().Underlying().(*types.Slice); ok && pointerLike(sl.Elem()) {
							src := cc.Args[1]
							srcFresh := a.fresh(n, src) && a.keyFresh(elemKey(sl.Elem()))
							if !srcFresh {
								ks := map[string]bool{}
								keysForType(sl.Elem(), elemKey(sl.Elem()), ks)
								for k := range ks {
									a.setKey(k, changed)
								}
								a.setKey(elemKey(sl.Elem()), changed)
							}
						}
					}
					continue
				}
				for _, c := range a.resolve(n, cc) {
					if !a.nodes[c] {
						continue
					}
					args := cc.Args
					shift := 0
					if cc.IsInvoke() {
						// receiver
						if !a.fresh(n, cc.Value) {
							if f, ok := a.paramFresh[pkey(c, 0)]; !ok || f {
								a.paramFresh[pkey(c, 0)] = false
								*changed = true
							}
						}
						shift = 1
					}
					for ai, arg := range args {
						pi := ai + shift
						if pi >= len(c.fn.Params) {
							break
						}
						if !pointerLike(arg.Type()) {
							continue
						}
						if !a.fresh(n, arg) {
							if f, ok := a.paramFresh[pkey(c, pi)]; !ok || f {
								a.paramFresh[pkey(c, pi)] = false
								*changed = true
							}
						}
					}
				}
			}
		}
	}
}

func (a *frameAn) exprAt(in ssa.Instruction) string {
	x := &Exec{W: a.w}
	return x.exprText(in, in.Pos())
}

func (a *frameAn) collect(n fnode) {
	via := ""
	add := func(in ssa.Instruction, keys []string, fresh bool, what string) {
		for _, k := range keys {
			w := frameWrite{Key: k, Fn: n.String(), Site: a.w.pos(in.Pos()), Expr: a.exprAt(in), Fresh: fresh, What: what, ViaGlobal: via}
			a.Writes = append(a.Writes, w)
			if strings.HasPrefix(k, "G:") {
				a.GlobalWrites = append(a.GlobalWrites, w)
			}
		}
	}
	for _, b := range n.fn.Blocks {
		for _, in := range b.Instrs {
			switch i := in.(type) {
			case *ssa.Store:
				via = a.glob(n, i.Addr)
				if _, isG := i.Addr.(*ssa.Global); isG {
					via = "" // direct global stores are reported through their G: key
				}
				add(i, a.addrKey(i.Addr), a.fresh(n, i.Addr), "store")
			case *ssa.MapUpdate:
				via = a.glob(n, i.Map)
				add(i, []string{"M:" + typeName(i.Map.Type())}, a.fresh(n, i.Map), "mapupdate")
			case *ssa.UnOp:
				if i.Op == token.MUL {
					for _, k := range a.addrKey(i.X) {
						a.Reads = append(a.Reads, frameRead{Key: k, Fn: n.String(), Site: a.w.pos(i.Pos())})
					}
				}
			case *ssa.Go:
				a.Unmodelled = append(a.Unmodelled, "go statement in "+n.String())
			case *ssa.Select, *ssa.Send, *ssa.MakeChan:
				a.Unmodelled = append(a.Unmodelled, fmt.Sprintf("%T in %s", in, n))
			case *ssa.Range:
				if _, ok := i.X.Type().Underlying().(*types.Map); ok {
					a.Unmodelled = append(a.Unmodelled, "range over map in "+n.String()+" at "+a.w.pos(i.Pos()))
				}
			case ssa.CallInstruction:
				cc := i.Common()
				if bi, ok := cc.Value.(*ssa.Builtin); ok {
					switch bi.Name() {
					case "append", "copy":
						if sl, ok := cc.Args[0].Type().Underlying().(*types.Slice); ok {
							ks := map[string]bool{}
							if _, isS := isStruct(sl.Elem()); isS {
								structKeys(sl.Elem(), ks)
							} else {
								keysForType(sl.Elem(), elemKey(sl.Elem()), ks)
							}
							via = a.glob(n, cc.Args[0])
							add(i, sortedKeys(ks), a.fresh(n, cc.Args[0]), bi.Name())
						}
					case "delete":
						via = a.glob(n, cc.Args[0])
						add(i, []string{"M:" + typeName(cc.Args[0].Type())}, a.fresh(n, cc.Args[0]), "delete")
					}
				}
			}
		}
	}
}

// ---------------------------------------------------------------------------
// taint: derivation from package-level variables (least fixpoint; "" = not derived)

func (a *frameAn) glob(n fnode, v ssa.Value) string {
	k := n.String() + "|" + v.Name() + fmt.Sprintf("|%p", v)
	if r, ok := a.gmemo[k]; ok {
		return r
	}
	if a.gvisiting[k] {
		return ""
	}
	a.gvisiting[k] = true
	r := a.glob1(n, v)
	delete(a.gvisiting, k)
	a.gmemo[k] = r
	return r
}

func (a *frameAn) glob1(n fnode, v ssa.Value) string {
	first := func(vs ...ssa.Value) string {
		for _, x := range vs {
			if g := a.glob(n, x); g != "" {
				return g
			}
		}
		return ""
	}
	switch x := v.(type) {
	case *ssa.Global:
		if x.Pkg != nil && strings.HasPrefix(x.Pkg.Pkg.Path(), modPath) {
			return shortPkg(x.Pkg.Pkg.Path()) + "." + x.Name()
		}
		return ""
	case *ssa.Parameter:
		for i, p := range n.fn.Params {
			if p == x {
				return a.paramGlob[pkey(n, i)]
			}
		}
	case *ssa.FreeVar:
		for i, fv := range n.fn.FreeVars {
			if fv == x {
				return a.paramGlob[pkey(n, 1000+i)]
			}
		}
	case *ssa.FieldAddr:
		return a.glob(n, x.X)
	case *ssa.IndexAddr:
		return a.glob(n, x.X)
	case *ssa.Field:
		return a.glob(n, x.X)
	case *ssa.Index:
		return a.glob(n, x.X)
	case *ssa.Slice:
		return a.glob(n, x.X)
	case *ssa.ChangeType:
		return a.glob(n, x.X)
	case *ssa.ChangeInterface:
		return a.glob(n, x.X)
	case *ssa.MakeInterface:
		return a.glob(n, x.X)
	case *ssa.TypeAssert:
		return a.glob(n, x.X)
	case *ssa.Convert:
		if pointerLike(x.Type()) && pointerLike(x.X.Type()) {
			return a.glob(n, x.X)
		}
	case *ssa.Extract:
		return a.glob(n, x.Tuple)
	case *ssa.Phi:
		return first(x.Edges...)
	case *ssa.UnOp:
		if x.Op != token.MUL || !pointerLike(x.Type()) {
			return ""
		}
		if g := a.glob(n, x.X); g != "" {
			return g
		}
		for _, k := range a.addrKey(x.X) {
			if g := a.keyGlob[k]; g != "" {
				return g
			}
		}
	case *ssa.Lookup:
		if !pointerLike(x.Type()) {
			return ""
		}
		if g := a.glob(n, x.X); g != "" {
			return g
		}
		return a.keyGlob["M:"+typeName(x.X.Type())]
	case *ssa.Call:
		cc := x.Common()
		if bi, ok := cc.Value.(*ssa.Builtin); ok {
			if bi.Name() == "append" {
				return a.glob(n, cc.Args[0])
			}
			return ""
		}
		if !pointerLike(x.Type()) {
			return ""
		}
		for _, c := range a.resolve(n, cc) {
			if g := a.retGlob[c]; g != "" {
				return g
			}
		}
	}
	return ""
}

func (a *frameAn) gstep(n fnode, changed *bool) {
	setKey := func(k, g string) {
		if a.keyGlob[k] == "" {
			a.keyGlob[k] = g
			*changed = true
		}
	}
	setParam := func(k, g string) {
		if a.paramGlob[k] == "" {
			a.paramGlob[k] = g
			*changed = true
		}
	}
	for _, b := range n.fn.Blocks {
		for _, in := range b.Instrs {
			switch i := in.(type) {
			case *ssa.Store:
				if _, isG := i.Addr.(*ssa.Global); isG {
					continue // initialisation of the global itself
				}
				if pointerLike(i.Val.Type()) {
					if g := a.glob(n, i.Val); g != "" {
						for _, k := range a.addrKey(i.Addr) {
							setKey(k, g)
						}
					}
				}
			case *ssa.MapUpdate:
				if pointerLike(i.Value.Type()) {
					if g := a.glob(n, i.Value); g != "" {
						setKey("M:"+typeName(i.Map.Type()), g)
					}
				}
			case *ssa.MakeClosure:
				if fn, ok := i.Fn.(*ssa.Function); ok {
					c := fnode{fn, ""}
					for bi, bv := range i.Bindings {
						if g := a.glob(n, bv); g != "" {
							setParam(pkey(c, 1000+bi), g)
						}
					}
				}
			case *ssa.Return:
				for _, r := range i.Results {
					if pointerLike(r.Type()) {
						if g := a.glob(n, r); g != "" && a.retGlob[n] == "" {
							a.retGlob[n] = g
							*changed = true
						}
					}
				}
			case ssa.CallInstruction:
				cc := i.Common()
				if bi, ok := cc.Value.(*ssa.Builtin); ok {
					if bi.Name() == "append" || bi.Name() == "copy" {
						if sl, ok := cc.Args[0].Type().Underlying().(*types.Slice); ok && pointerLike(sl.Elem()) {
							if g := a.glob(n, cc.Args[1]); g != "" {
								ks := map[string]bool{}
								keysForType(sl.Elem(), elemKey(sl.Elem()), ks)
								for k := range ks {
									setKey(k, g)
								}
							}
						}
					}
					continue
				}
				for _, c := range a.resolve(n, cc) {
					if !a.nodes[c] {
						continue
					}
					shift := 0
					if cc.IsInvoke() {
						if g := a.glob(n, cc.Value); g != "" {
							setParam(pkey(c, 0), g)
						}
						shift = 1
					}
					for ai, arg := range cc.Args {
						if ai+shift >= len(c.fn.Params) || !pointerLike(arg.Type()) {
							continue
						}
						if g := a.glob(n, arg); g != "" {
							setParam(pkey(c, ai+shift), g)
						}
					}
				}
			}
		}
	}
}

// ---------------------------------------------------------------------------
// frame directives and obligations

type frameDirective struct {
	Pkg   string
	Name  string
	Roots []string
	Allow []string
	Props []string
	Readers map[string][]string // key glob -> functions allowed to read it
}

func parseFrameDirectives(w *World) []frameDirective {
	var out []frameDirective
	for _, pp := range sortedKeys(w.CFiles) {
		for _, d := range w.CFiles[pp].Directives {
			word, rest := splitWord(d)
			if word != "frame" {
				continue
			}
			i := strings.Index(rest, ":")
			if i < 0 {
				continue
			}
			fd := frameDirective{Pkg: pp, Name: strings.TrimSpace(rest[:i]), Readers: map[string][]string{}}
			for _, f := range strings.Fields(rest[i+1:]) {
				kv := strings.SplitN(f, "=", 2)
				if len(kv) != 2 {
					continue
				}
				vals := strings.Split(kv[1], ";")
				switch kv[0] {
				case "roots":
					fd.Roots = vals
				case "allow":
					if kv[1] != "nothing" {
						fd.Allow = vals
					}
				case "props":
					fd.Props = strings.Split(kv[1], ",")
				case "readers":
					// readers=<keyglob>@<fn>;<fn>
					at := strings.Index(kv[1], "@")
					if at > 0 {
						fd.Readers[kv[1][:at]] = strings.Split(kv[1][at+1:], ";")
					}
				}
			}
			out = append(out, fd)
		}
	}
	return out
}

func (w *World) rootsFor(fd frameDirective) []*ssa.Function {
	var roots []*ssa.Function
	for _, r := range fd.Roots {
		pkg := fd.Pkg
		if strings.HasSuffix(r, ".*") {
			roots = append(roots, w.methodsOf(pkg, strings.TrimSuffix(r, ".*"))...)
			continue
		}
		if fn := w.lookupFunc(pkg, r); fn != nil {
			roots = append(roots, fn)
		}
	}
	return roots
}

func shortFn(s string) string {
	return strings.ReplaceAll(s, modPath+"/", "")
}

// frameObligationsFor turns the analysis result into named obligations.
func frameObligationsFor(c *CheckCtx, fd frameDirective) {
	roots := c.W.rootsFor(fd)
	prefix := shortPkg(fd.Pkg) + ".frame:" + fd.Name
	if len(roots) == 0 {
		c.Extra = append(c.Extra, &Obligation{Name: prefix + "/frame/roots-exist", Class: "frame", Status: "sat", Solver: "frame-analysis", Output: "no root function matches " + strings.Join(fd.Roots, ";")})
		return
	}
	a := newFrameAn(c.W, roots)
	a.run()
	cnt := map[string]int{}
	nonFresh := 0
	for _, wr := range a.Writes {
		base := fmt.Sprintf("%s/frame/%s:%s %s@%s", prefix, shortFn(wr.Fn), wr.What, wr.Key, wr.Expr)
		cnt[base]++
		name := base
		if cnt[base] > 1 {
			name = fmt.Sprintf("%s#%d", base, cnt[base])
		}
		o := &Obligation{Name: name, Class: "frame", Site: wr.Site, Solver: "frame-analysis", Status: "unsat"}
		if wr.ViaGlobal != "" {
			o.Status = "sat"
			o.Output = fmt.Sprintf("write (%s) to %s at %s in %s: the written object may be reachable from package-level variable %s (shared between calls and goroutines)", wr.What, wr.Key, wr.Site, shortFn(wr.Fn), wr.ViaGlobal)
		} else if strings.HasPrefix(wr.Key, "G:") && !strings.HasSuffix(shortFn(wr.Fn), ".init") {
			o.Status = "sat"
			o.Output = fmt.Sprintf("store to package-level variable %s at %s in %s", wr.Key, wr.Site, shortFn(wr.Fn))
		} else if !wr.Fresh {
			nonFresh++
			ok := false
			for _, g := range fd.Allow {
				if globMatch(g, wr.Key) {
					ok = true
				}
			}
			if !ok {
				o.Status = "sat"
				o.Output = fmt.Sprintf("write (%s) to %s at %s in %s: the base object is not allocated inside the call tree of the roots and the key is not in the modifies clause [%s]", wr.What, wr.Key, wr.Site, shortFn(wr.Fn), strings.Join(fd.Allow, ";"))
			}
		}
		c.Extra = append(c.Extra, o)
	}
	// concurrency / nondeterminism constructs
	o := &Obligation{Name: prefix + "/frame/no-go-chan-select-maprange", Class: "frame", Solver: "frame-analysis", Status: "unsat"}
	if len(a.Unmodelled) > 0 {
		o.Status = "sat"
		o.Output = strings.Join(a.Unmodelled, "; ")
	}
	c.Extra = append(c.Extra, o)
	// readers
	for _, kg := range sortedKeys(fd.Readers) {
		allowed := fd.Readers[kg]
		seen := map[string]bool{}
		for _, rd := range a.Reads {
			if !globMatch(kg, rd.Key) {
				continue
			}
			fn := shortFn(rd.Fn)
			if seen[fn] {
				continue
			}
			seen[fn] = true
			o := &Obligation{Name: fmt.Sprintf("%s/reads/%s in %s", prefix, kg, fn), Class: "reads", Site: rd.Site, Solver: "frame-analysis", Status: "sat"}
			for _, al := range allowed {
				if fn == al || strings.HasSuffix(fn, al) {
					o.Status = "unsat"
				}
			}
			if o.Status == "sat" {
				o.Output = fmt.Sprintf("%s reads %s at %s; the reads clause only lists %s", fn, rd.Key, rd.Site, strings.Join(allowed, ";"))
			}
			c.Extra = append(c.Extra, o)
		}
	}
	for _, e := range sortedKeys(a.External) {
		if strings.HasPrefix(e, "stdlib ") {
			c.assume("frame: " + e + " does not write memory reachable from its arguments that the library owns")
		} else {
			c.assume("frame: " + e)
		}
	}
	c.CoverageExtra["frame:"+fd.Name] = map[string]interface{}{"roots": len(roots), "functions_in_call_tree": len(a.order), "writes": len(a.Writes), "non_fresh_writes": nonFresh, "reads": len(a.Reads)}
	if len(c.Samples) < 4 && len(a.Writes) > 0 {
		wr := a.Writes[len(a.Writes)/2]
		c.Samples = append(c.Samples, map[string]interface{}{"frame_family": fd.Name, "write": wr.What + " " + wr.Key, "in": shortFn(wr.Fn), "site": wr.Site, "fresh": wr.Fresh})
	}
}

func (c *CheckCtx) addFrames(prop string) {
	for _, fd := range parseFrameDirectives(c.W) {
		for _, p := range fd.Props {
			if p == prop {
				frameObligationsFor(c, fd)
			}
		}
	}
}

// forbiddenImports: library packages must not import the listed packages (C11 G4, §7.6).
func (c *CheckCtx) forbiddenImports(list []string) {
	for _, pp := range sortedKeys(c.W.PkgByPath) {
		if !strings.HasPrefix(pp, modPath+"/pkg") && !strings.HasPrefix(pp, modPath+"/internal") {
			continue
		}
		p := c.W.PkgByPath[pp]
		for _, bad := range list {
			o := &Obligation{Name: fmt.Sprintf("%s/imports/no-%s", shortPkg(pp), bad), Class: "imports", Solver: "frame-analysis", Status: "unsat"}
			if _, ok := p.Imports[bad]; ok {
				o.Status = "sat"
				o.Output = shortPkg(pp) + " imports " + bad
			}
			c.Extra = append(c.Extra, o)
		}
	}
}
