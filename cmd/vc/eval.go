package main

// Evaluation of contract expressions over a symbolic state.

import (
	"fmt"
	"go/constant"
	"go/types"
	"strings"

	"golang.org/x/tools/go/ssa"
)

type binds map[string]TV

func (x *Exec) evalBool(fc *frameCtx, st *State, e *CExpr, b binds) *Term {
	old := fc.entry
	if old == nil {
		old = st
	}
	tv := x.eval(fc, st, old, e, b)
	t, ok := tv.V.(*Term)
	if !ok || t.sort != SBool {
		oos("contract expression %q is not boolean", e)
	}
	return t
}

func (x *Exec) evalBoolOld(fc *frameCtx, st, old *State, e *CExpr) *Term {
	tv := x.eval(fc, st, old, e, nil)
	t, ok := tv.V.(*Term)
	if !ok || t.sort != SBool {
		oos("contract expression %q is not boolean", e)
	}
	return t
}

func (x *Exec) evalInt(fc *frameCtx, st *State, e *CExpr, b binds) *Term {
	old := fc.entry
	if old == nil {
		old = st
	}
	tv := x.eval(fc, st, old, e, b)
	t, ok := tv.V.(*Term)
	if !ok || t.sort != SInt {
		oos("contract expression %q is not an integer", e)
	}
	return t
}

var tInt = types.Typ[types.Int]
var tBoolT = types.Typ[types.Bool]

// loopBinds exposes the phi nodes of all loop headers by their source variable names.
func (x *Exec) loopBinds(fc *frameCtx) binds {
	b := binds{}
	if fc.fn == nil || fc.fn.Blocks == nil {
		return b
	}
	for _, blk := range fc.fn.Blocks {
		if fc.loops == nil || fc.loops[blk] == nil {
			continue
		}
		if fc.curLoop != nil && blk != fc.curLoop && !blk.Dominates(fc.curLoop) {
			continue // a variable of a loop that does not enclose or precede the one being specified
		}
		for _, in := range blk.Instrs {
			phi, ok := in.(*ssa.Phi)
			if !ok {
				break
			}
			if v, ok := fc.env[phi]; ok && phi.Comment != "" {
				b[phi.Comment] = TV{v, phi.Type()}
			}
		}
	}
	if fc.curLoop != nil {
		for _, in := range fc.curLoop.Instrs {
			phi, ok := in.(*ssa.Phi)
			if !ok {
				break
			}
			if v, ok := fc.env[phi]; ok && phi.Comment != "" {
				b[phi.Comment] = TV{v, phi.Type()}
			}
		}
	}
	return b
}

func (x *Exec) eval(fc *frameCtx, st, old *State, e *CExpr, b binds) TV {
	switch e.Kind {
	case "int":
		return TV{mkInt(e.IVal), tInt}
	case "bool":
		return TV{mkBool(e.IVal == 1), tBoolT}
	case "str":
		return TV{x.strConst(e.SVal), types.Typ[types.String]}
	case "nil":
		return TV{mkInt(0), types.Typ[types.UntypedNil]}
	case "ident":
		if v, ok := b[e.Name]; ok {
			return v
		}
		if lb := x.loopBinds(fc); lb != nil && x.inOld == 0 {
			if v, ok := lb[e.Name]; ok {
				return v
			}
		}
		if v, ok := fc.params[e.Name]; ok {
			return v
		}
		if strings.HasPrefix(e.Name, "result") && len(e.Name) == 7 && e.Name[6] >= '0' && e.Name[6] <= '9' {
			k := int(e.Name[6] - '0')
			tv, ok := fc.result.(TupleV)
			if !ok || k >= len(tv) {
				oos("%s used but result is not a tuple", e.Name)
			}
			return TV{tv[k], fc.fn.Signature.Results().At(k).Type()}
		}
		if strings.HasPrefix(e.Name, "arg") && len(e.Name) == 4 && fc.callArgs != nil {
			k := int(e.Name[3] - '0')
			if k < len(fc.callArgs) {
				return fc.callArgs[k]
			}
		}
		if v, ok := x.extraBinds[e.Name]; ok {
			return v
		}
		if g := x.globalTV(fc, st, e.Name); g != nil {
			return *g
		}
		if e.Name == "result" {
			if fc.result == nil {
				oos("result used where there is none")
			}
			rs := fc.fn.Signature.Results()
			if rs.Len() == 1 {
				return TV{fc.result, rs.At(0).Type()}
			}
			return TV{fc.result, rs}
		}
		oos("unknown identifier %q in contract of %s", e.Name, fc.fn)
	case "unary":
		a := x.eval(fc, st, old, e.Args[0], b)
		switch e.Op {
		case "!":
			return TV{tNot(a.V.(*Term)), tBoolT}
		case "-":
			return TV{tNeg(a.V.(*Term)), tInt}
		}
	case "binary":
		return x.evalBinary(fc, st, old, e, b)
	case "forall", "exists":
		nb := binds{}
		for k, v := range b {
			nb[k] = v
		}
		var vars []*Term
		for _, v := range e.Vars {
			c := mkConst("q_"+v, SInt)
			vars = append(vars, c)
			nb[v] = TV{c, tInt}
		}
		x.inQuant++
		body := x.eval(fc, st, old, e.Args[0], nb).V.(*Term)
		x.inQuant--
		if e.Kind == "forall" {
			return TV{tForall(vars, body), tBoolT}
		}
		return TV{tExists(vars, body), tBoolT}
	case "sel":
		base := x.eval(fc, st, old, e.Args[0], b)
		return x.evalSel(st, base, e.Name, e)
	case "index":
		base := x.eval(fc, st, old, e.Args[0], b)
		idx := x.eval(fc, st, old, e.Args[1], b).V.(*Term)
		switch bv := base.V.(type) {
		case SliceV:
			et := base.T.Underlying().(*types.Slice).Elem()
			p := x.elemPtr(bv, et, idx)
			if ref, ok := p.(*Term); ok {
				return TV{ref, et}
			}
			return TV{x.loadQuiet(st, p.(PtrV)), et}
		case *Term:
			if strings.HasPrefix(bv.sort, "(Array") {
				return TV{mkApp("select", elemSort(bv.sort), bv, idx), nil}
			}
			if base.T != nil {
				if mt, ok := base.T.Underlying().(*types.Map); ok {
					return TV{x.mapValue(st, base.T, bv, idx), mt.Elem()}
				}
			}
			if bt, ok := base.T.Underlying().(*types.Basic); ok && bt.Info()&types.IsString != 0 {
				return TV{x.strByte(bv, idx), types.Typ[types.Uint8]}
			}
		}
		oos("cannot index %s", e.Args[0])
	case "slice":
		base := x.eval(fc, st, old, e.Args[0], b)
		sv, ok := base.V.(SliceV)
		if !ok {
			oos("slice expression on non-slice %s", e.Args[0])
		}
		lo := mkInt(0)
		if e.Args[1] != nil {
			lo = x.eval(fc, st, old, e.Args[1], b).V.(*Term)
		}
		hi := sv.Len
		if e.Args[2] != nil {
			hi = x.eval(fc, st, old, e.Args[2], b).V.(*Term)
		}
		return TV{SliceV{sv.Arr, tAdd(sv.Off, lo), tSub(hi, lo), tSub(sv.Cap, lo)}, base.T}
	case "call":
		return x.evalCall(fc, st, old, e, b)
	}
	oos("cannot evaluate contract expression %q", e)
	return TV{}
}

// loadQuiet loads without adding definitions that depend on path guards.
func (x *Exec) loadQuiet(st *State, p PtrV) Val {
	cs := compsOf(p.T)
	ts := make([]*Term, len(cs))
	for i, c := range cs {
		switch p.Kind {
		case "field", "cell":
			ts[i] = mkApp("select", c.Sort, x.heapGet(st, p.Key+c.Suffix, arrSort(c.Sort)), p.Ref)
		case "elem":
			ts[i] = x.elemRead(mkApp("select", arrSort(c.Sort), x.heapGet(st, p.Key+c.Suffix, arrSort(arrSort(c.Sort))), p.Ref), p, c.Sort)
		}
	}
	v := unflatten(p.T, ts)
	if x.inQuant == 0 {
		// well-formedness of stored values (ranges, refs below alloc, slice shape) are axioms of the heap model
		x.assumeWF(&State{Guard: tTrue, Alloc: st.Alloc}, v, p.T)
	}
	return v
}

func (x *Exec) evalSel(st *State, base TV, name string, e *CExpr) TV {
	if sv, ok := base.V.(StructV); ok {
		for i := 0; i < sv.T.NumFields(); i++ {
			if sv.T.Field(i).Name() == name {
				return TV{sv.Fields[i], sv.T.Field(i).Type()}
			}
		}
		oos("no field %s", name)
	}
	ref, t := x.structRefOf(base)
	stt, ok := isStruct(t)
	if !ok {
		oos("selector %s on non-struct %s in %q", name, t, e)
	}
	for i := 0; i < stt.NumFields(); i++ {
		if stt.Field(i).Name() != name {
			continue
		}
		ft := stt.Field(i).Type()
		if _, ok := isStruct(ft); ok {
			return TV{tAdd(ref, mkInt(fieldOffset(stt, i))), ft}
		}
		return TV{x.loadQuiet(st, PtrV{Kind: "field", Key: fieldKey(t, stt, i), Ref: ref, T: ft}), ft}
	}
	if n, ok := t.(*types.Named); ok {
		if g := x.W.ghostField(n, name); g != nil {
			srt := ghostSort(g.Sort)
			h := x.heapGet(st, "F:"+typeName(t)+"."+g.Name, arrSort(srt))
			return TV{mkApp("select", srt, h, ref), nil}
		}
	}
	oos("no field %s in %s (contract %q)", name, t, e)
	return TV{}
}

func (x *Exec) evalBinary(fc *frameCtx, st, old *State, e *CExpr, b binds) TV {
	switch e.Op {
	case "&&", "||", "==>", "<==>":
		l := x.eval(fc, st, old, e.Args[0], b).V.(*Term)
		r := x.eval(fc, st, old, e.Args[1], b).V.(*Term)
		switch e.Op {
		case "&&":
			return TV{tAnd(l, r), tBoolT}
		case "||":
			return TV{tOr(l, r), tBoolT}
		case "==>":
			return TV{tImp(l, r), tBoolT}
		default:
			return TV{tEq(l, r), tBoolT}
		}
	}
	l := x.eval(fc, st, old, e.Args[0], b)
	r := x.eval(fc, st, old, e.Args[1], b)
	switch e.Op {
	case "==", "!=":
		var eq *Term
		lnil := e.Args[0].Kind == "nil"
		rnil := e.Args[1].Kind == "nil"
		switch {
		case rnil:
			eq = nilTest(l.V, l.T)
		case lnil:
			eq = nilTest(r.V, r.T)
		default:
			switch lv := l.V.(type) {
			case *Term:
				eq = tEq(lv, r.V.(*Term))
			case SliceV:
				rv := r.V.(SliceV)
				// slice "equality" in contracts: same window of the same array
				eq = tAnd(tEq(lv.Arr, rv.Arr), tEq(lv.Off, rv.Off), tEq(lv.Len, rv.Len))
			case IfaceV:
				rv := r.V.(IfaceV)
				eq = tAnd(tEq(lv.Tag, rv.Tag), tEq(lv.Ref, rv.Ref))
			default:
				oos("cannot compare %T in %q", l.V, e)
			}
		}
		if e.Op == "!=" {
			eq = tNot(eq)
		}
		return TV{eq, tBoolT}
	}
	lt, lok := l.V.(*Term)
	rt, rok := r.V.(*Term)
	if !lok || !rok {
		oos("arithmetic on non-scalar in %q", e)
	}
	switch e.Op {
	case "<":
		return TV{tLt(lt, rt), tBoolT}
	case "<=":
		return TV{tLe(lt, rt), tBoolT}
	case ">":
		return TV{tGt(lt, rt), tBoolT}
	case ">=":
		return TV{tGe(lt, rt), tBoolT}
	case "+":
		return TV{tAdd(lt, rt), tInt}
	case "-":
		return TV{tSub(lt, rt), tInt}
	case "*":
		return TV{tMul(lt, rt), tInt}
	case "/":
		return TV{mkApp("div", SInt, lt, rt), tInt}
	case "%":
		return TV{mkApp("mod", SInt, lt, rt), tInt}
	}
	oos("operator %s", e.Op)
	return TV{}
}

func (x *Exec) evalCall(fc *frameCtx, st, old *State, e *CExpr, b binds) TV {
	arg := func(i int) TV { return x.eval(fc, st, old, e.Args[i], b) }
	switch e.Name {
	case "old":
		x.inOld++
		defer func() { x.inOld-- }()
		return x.eval(fc, old, old, e.Args[0], b)
	case "len":
		a := arg(0)
		switch v := a.V.(type) {
		case SliceV:
			return TV{v.Len, tInt}
		case *Term:
			return TV{x.strLen(v), tInt}
		}
	case "cap":
		return TV{arg(0).V.(SliceV).Cap, tInt}
	case "arr":
		return TV{arg(0).V.(SliceV).Arr, tInt}
	case "off":
		return TV{arg(0).V.(SliceV).Off, tInt}
	case "ref":
		a := arg(0)
		k := arg(1).V.(*Term)
		et := a.T.Underlying().(*types.Slice).Elem()
		return TV{x.elemPtr(a.V.(SliceV), et, k).(*Term), tInt}
	case "fresh":
		p := x.refOf(arg(0))
		return TV{tAnd(tGe(p, old.Alloc), tLt(p, st.Alloc), tGt(p, mkInt(0))), tBoolT}
	case "allocated":
		p := x.refOf(arg(0))
		return TV{tAnd(tLt(p, st.Alloc), tGt(p, mkInt(0))), tBoolT}
	case "add":
		return TV{tStore(arg(0).V.(*Term), x.refOf(arg(1)), tTrue), nil}
	case "empty":
		return TV{zeroOf(SArrIB), nil}
	case "int":
		return TV{x.refOf(arg(0)), tInt}
	case "typeis":
		iv := arg(0).V.(IfaceV)
		name := e.Args[1].SVal
		if t := x.W.namedPtr(name); t != nil {
			return TV{tEq(iv.Tag, mkInt(int64(x.W.typeID(t)))), tBoolT}
		}
		for k, id := range x.W.typeIDs {
			if k == name || strings.HasSuffix(k, "/"+name) {
				return TV{tEq(iv.Tag, mkInt(int64(id))), tBoolT}
			}
		}
		oos("typeis: unknown type %s", name)
	case "cbcount":
		h := x.heapGet(st, "G:ghost.cbcount", SArrII)
		return TV{mkApp("select", SInt, h, mkInt(0)), tInt}
	case "elemref":
		// the object ref of element i of a slice of structs (struct elements are laid out in place)
		sv, ok := arg(0).V.(SliceV)
		sl, ok2 := arg(0).T.Underlying().(*types.Slice)
		if !ok || !ok2 {
			oos("elemref: not a slice")
		}
		if _, isS := isStruct(sl.Elem()); !isS {
			oos("elemref: elements are not structs")
		}
		return TV{tAdd(sv.Arr, tMul(tAdd(sv.Off, arg(1).V.(*Term)), mkInt(structSize(sl.Elem())))), tInt}
	case "fieldat":
		// fieldat("pkg.Type", "field", r): the value of an integer field of the struct object at ref r
		pt := x.W.namedPtr(e.Args[0].SVal)
		if pt == nil {
			oos("fieldat: unknown type %s", e.Args[0].SVal)
		}
		nt := pt.(*types.Pointer).Elem()
		sst, _ := isStruct(nt)
		for f := 0; f < sst.NumFields(); f++ {
			if sst.Field(f).Name() == e.Args[1].SVal {
				h := x.heapGet(st, fieldKey(nt, sst, f), SArrII)
				return TV{mkApp("select", SInt, h, arg(2).V.(*Term)), tInt}
			}
		}
		oos("fieldat: no field %s", e.Args[1].SVal)
	case "errcalls":
		// ghost: number of calls of the parser's Error method made by the LR driver (E-DRV)
		h := x.heapGet(st, "G:ghost.errcalls", SArrII)
		return TV{mkApp("select", SInt, h, mkInt(0)), tInt}
	case "cbarg":
		h := x.heapGet(st, "G:ghost.cbarg", SArrII)
		return TV{mkApp("select", SInt, h, mkInt(0)), tInt}
	case "posof":
		// the Position of a node held in an interface value (what GetPosition() returns: checked per kind)
		iv, ok := arg(0).V.(IfaceV)
		if !ok {
			oos("posof() of a non-interface value")
		}
		h := x.heapGet(st, posKey, SArrII)
		pt := positionPtrType(x.W)
		v := mkApp("select", SInt, h, iv.Ref)
		return TV{v, pt}
	case "has":
		m := arg(0)
		if m.T == nil {
			oos("has(): not a map")
		}
		if _, ok := m.T.Underlying().(*types.Map); !ok {
			oos("has(): not a map")
		}
		return TV{x.mapHas(st, m.T, m.V.(*Term), x.mapKeyTerm(arg(1).V)), tBoolT}
	case "bstr":
		// the string made of the bytes of a slice (what string(b) yields)
		sv, ok := arg(0).V.(SliceV)
		if !ok {
			oos("bstr() of a non-slice")
		}
		x.Sc.DeclareFun("str.ofbytes", []string{SArrII, SInt, SInt}, SInt)
		h := x.heapGet(st, elemKey(types.Typ[types.Uint8]), SArr2I)
		return TV{mkApp("str.ofbytes", SInt, mkApp("select", SArrII, h, sv.Arr), sv.Off, sv.Len), types.Typ[types.String]}
	case "cat":
		x.Sc.DeclareFun("str.cat", []string{SInt, SInt}, SInt)
		return TV{mkApp("str.cat", SInt, arg(0).V.(*Term), arg(1).V.(*Term)), types.Typ[types.String]}
	case "as":
		// view an interface value as a pointer to the named struct type (use under typeis)
		iv, ok := arg(0).V.(IfaceV)
		if !ok {
			oos("as() of a non-interface value")
		}
		if t := x.W.namedPtr(e.Args[1].SVal); t != nil {
			return TV{iv.Ref, t}
		}
		oos("as: unknown type %s", e.Args[1].SVal)
	case "aserror":
		// view an integer reference (e.g. cbarg()) as *errors.Error
		pkg := x.W.PkgByPath[modPath+"/pkg/errors"]
		if pkg == nil {
			oos("aserror: pkg/errors not loaded")
		}
		return TV{x.refOf(arg(0)), types.NewPointer(pkg.Types.Scope().Lookup("Error").Type())}
	case "strlen":
		return TV{x.strLen(arg(0).V.(*Term)), tInt}
	case "entrystate":
		// scanner entry states, read off the generated code by E-SCAN
		v := arg(0).V.(*Term)
		var ds []*Term
		for _, n := range x.W.scanEntryStates() {
			ds = append(ds, tEq(v, mkInt(n)))
		}
		if len(ds) == 0 {
			oos("entrystate() outside the scanner engine")
		}
		return TV{tOr(ds...), tBoolT}
	case "reststate":
		// states in which Lex may rest at the end of the input: those without an end-of-input action
		v := arg(0).V.(*Term)
		var ds []*Term
		for _, n := range x.W.scanRestStates() {
			ds = append(ds, tEq(v, mkInt(n)))
		}
		if len(ds) == 0 {
			oos("reststate() outside the scanner engine")
		}
		return TV{tOr(ds...), tBoolT}
	case "lower":
		x.Sc.DeclareFun("str.lower", []string{SInt}, SInt)
		return TV{mkApp("str.lower", SInt, arg(0).V.(*Term)), types.Typ[types.String]}
	}
	if strings.HasPrefix(e.Name, "uf_") {
		// uninterpreted spec function over integers/strings
		var args []*Term
		var sorts []string
		for i := range e.Args {
			args = append(args, arg(i).V.(*Term))
			sorts = append(sorts, SInt)
		}
		ret := SInt
		if strings.HasPrefix(e.Name, "uf_is") {
			ret = SBool
		}
		x.Sc.DeclareFun(e.Name, sorts, ret)
		if ret == SBool {
			return TV{mkApp(e.Name, ret, args...), tBoolT}
		}
		return TV{mkApp(e.Name, ret, args...), tInt}
	}
	// predicate macro
	pkg := ""
	if fc.fn != nil {
		pkg = funcPkgPath(fc.fn)
	}
	if p := x.W.predFor(pkg, e.Name); p != nil {
		if len(p.Params) != len(e.Args) {
			oos("pred %s: wrong number of arguments", e.Name)
		}
		nb := binds{}
		for i, pn := range p.Params {
			nb[pn] = arg(i)
		}
		// quantifier variables of the caller stay visible only through arguments
		sub := &frameCtx{fn: fc.fn, params: map[string]TV{}, result: fc.result, env: fc.env}
		return x.eval(sub, st, old, p.Body, nb)
	}
	oos("unknown function %s in contract", e.Name)
	return TV{}
}

func (x *Exec) refOf(tv TV) *Term {
	switch v := tv.V.(type) {
	case *Term:
		return v
	case IfaceV:
		return v.Ref
	case SliceV:
		return v.Arr
	}
	panic(fmt.Sprintf("refOf %T", tv.V))
}

// globalTV resolves a package-level variable of the function's (or contract's) package.
func (x *Exec) globalTV(fc *frameCtx, st *State, name string) *TV {
	pkg := fc.pkgPath
	if pkg == "" && fc.fn != nil {
		pkg = funcPkgPath(fc.fn)
	}
	sp := x.W.SSAPkgs[pkg]
	if sp == nil || sp.Members[name] == nil {
		// predicates are shared between packages: an integer constant named in a predicate body is
		// looked up in the module's other packages (first match in path order)
		for _, pp := range sortedKeys(x.W.SSAPkgs) {
			if !strings.HasPrefix(pp, modPath) {
				continue
			}
			if nc, ok := x.W.SSAPkgs[pp].Members[name].(*ssa.NamedConst); ok {
				sp = x.W.SSAPkgs[pp]
				_ = nc
				break
			}
		}
	}
	if sp == nil {
		return nil
	}
	if nc, ok := sp.Members[name].(*ssa.NamedConst); ok {
		// integer package-level constants may be used by name (e.g. the ragel entry points lexer_en_*)
		if b, isB := nc.Type().Underlying().(*types.Basic); isB && b.Info()&types.IsInteger != 0 {
			if v, exact := constant.Int64Val(constant.ToInt(nc.Value.Value)); exact {
				return &TV{mkInt(v), nc.Type()}
			}
		}
		return nil
	}
	g, ok := sp.Members[name].(*ssa.Global)
	if !ok {
		return nil
	}
	t := g.Type().(*types.Pointer).Elem()
	p := x.globalPtr(g)
	switch pv := p.(type) {
	case PtrV:
		if pv.Kind != "cell" {
			return nil
		}
		cs := compsOf(pv.T)
		ts := make([]*Term, len(cs))
		for i, c := range cs {
			ts[i] = mkApp("select", c.Sort, x.heapGet(st, pv.Key+c.Suffix, arrSort(c.Sort)), mkInt(0))
		}
		return &TV{unflatten(pv.T, ts), t}
	case *Term:
		return &TV{pv, t}
	}
	return nil
}
