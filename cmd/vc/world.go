package main

// Loading of /repo's current working tree: go/packages + go/ssa, contract files.

import (
	"fmt"
	"sync"
	"go/token"
	"go/types"
	"os"
	"path/filepath"
	"sort"
	"strings"

	"golang.org/x/tools/go/packages"
	"golang.org/x/tools/go/ssa"
	"golang.org/x/tools/go/ssa/ssautil"
)

const modPath = "github.com/z7zmey/php-parser"

var repoDir = func() string {
	if d := os.Getenv("VC_REPO"); d != "" {
		return d
	}
	return "/repo"
}()

type World struct {
	Pkgs      []*packages.Package
	PkgByPath map[string]*packages.Package
	Prog      *ssa.Program
	SSAPkgs   map[string]*ssa.Package
	Fset      *token.FileSet
	CFiles    map[string]*ContractFile // by package path
	typeIDs   map[string]int           // dynamic type tags
	typeByID  map[int]types.Type
	strLits   map[string]int
	wkCache   map[*ssa.Function]map[string]bool
	allFuncs  map[*ssa.Function]bool
	entryStates []int64 // scanner entry states (E-SCAN), computed on demand
	mu          sync.Mutex // guards the lazily filled tables below when regions are generated in parallel
	idMu        sync.Mutex
	restStates  []int64 // scanner states without an end-of-input action
}

func loadWorld(patterns ...string) (*World, error) {
	cfg := &packages.Config{
		Mode:       packages.LoadAllSyntax,
		Dir:        repoDir,
		BuildFlags: []string{"-tags=verif"},
		Env:        append(os.Environ(), "GOFLAGS=-mod=mod", "GOPROXY=off", "GOSUMDB=off", "GOTOOLCHAIN=local"),
	}
	pkgs, err := packages.Load(cfg, patterns...)
	if err != nil {
		return nil, err
	}
	var errs []string
	packages.Visit(pkgs, nil, func(p *packages.Package) {
		for _, e := range p.Errors {
			errs = append(errs, e.Error())
		}
	})
	if len(errs) > 0 {
		return nil, fmt.Errorf("load errors: %s", strings.Join(errs, "; "))
	}
	prog, _ := ssautil.AllPackages(pkgs, ssa.BuilderMode(0))
	prog.Build()
	w := &World{Pkgs: pkgs, Prog: prog, PkgByPath: map[string]*packages.Package{}, SSAPkgs: map[string]*ssa.Package{},
		CFiles: map[string]*ContractFile{}, typeIDs: map[string]int{}, typeByID: map[int]types.Type{}, strLits: map[string]int{},
		wkCache: map[*ssa.Function]map[string]bool{}}
	packages.Visit(pkgs, nil, func(p *packages.Package) {
		w.PkgByPath[p.PkgPath] = p
		if sp := prog.Package(p.Types); sp != nil {
			w.SSAPkgs[p.PkgPath] = sp
		}
		if w.Fset == nil {
			w.Fset = p.Fset
		}
	})
	for path, p := range w.PkgByPath {
		if !strings.HasPrefix(path, modPath) {
			continue
		}
		if len(p.GoFiles) == 0 {
			continue
		}
		dir := filepath.Dir(p.GoFiles[0])
		cf, err := loadContractFile(path, dir)
		if err != nil {
			return nil, err
		}
		w.CFiles[path] = cf
	}
	w.allFuncs = ssautil.AllFunctions(prog)
	return w, nil
}

func shortPkg(path string) string {
	if strings.HasPrefix(path, modPath+"/") {
		return path[len(modPath)+1:]
	}
	return path
}

// funcKey is the package-relative key used in contract files.
func funcKey(fn *ssa.Function) string {
	if fn.Signature.Recv() != nil {
		rt := fn.Signature.Recv().Type()
		star := ""
		if p, ok := rt.(*types.Pointer); ok {
			rt = p.Elem()
			star = "*"
		}
		name := rt.String()
		if n, ok := rt.(*types.Named); ok {
			name = n.Obj().Name()
		}
		if star != "" {
			return "(*" + name + ")." + fn.Name()
		}
		return "(" + name + ")." + fn.Name()
	}
	return fn.Name()
}

func funcPkgPath(fn *ssa.Function) string {
	if fn.Pkg != nil {
		return fn.Pkg.Pkg.Path()
	}
	if fn.Signature.Recv() != nil {
		rt := fn.Signature.Recv().Type()
		if p, ok := rt.(*types.Pointer); ok {
			rt = p.Elem()
		}
		if n, ok := rt.(*types.Named); ok && n.Obj().Pkg() != nil {
			return n.Obj().Pkg().Path()
		}
	}
	if fn.Object() != nil && fn.Object().Pkg() != nil {
		return fn.Object().Pkg().Path()
	}
	return ""
}

func (w *World) contractFor(fn *ssa.Function) *Contract {
	cf := w.CFiles[funcPkgPath(fn)]
	if cf == nil {
		return nil
	}
	return cf.Contracts[funcKey(fn)]
}

func (w *World) predFor(pkg, name string) *Pred {
	if cf := w.CFiles[pkg]; cf != nil {
		if p := cf.Preds[name]; p != nil {
			return p
		}
	}
	// fall back: search all packages (preds are global by name)
	var keys []string
	for k := range w.CFiles {
		keys = append(keys, k)
	}
	sort.Strings(keys)
	for _, k := range keys {
		if p := w.CFiles[k].Preds[name]; p != nil {
			return p
		}
	}
	return nil
}

func (w *World) ghostField(st *types.Named, name string) *GhostField {
	if st.Obj().Pkg() == nil {
		return nil
	}
	cf := w.CFiles[st.Obj().Pkg().Path()]
	if cf == nil {
		return nil
	}
	for i := range cf.Ghosts {
		g := &cf.Ghosts[i]
		if g.Type == st.Obj().Name() && g.Name == name {
			return g
		}
	}
	return nil
}

// lookupFunc finds a function by package path and key.
func (w *World) lookupFunc(pkgPath, key string) *ssa.Function {
	sp := w.SSAPkgs[pkgPath]
	if sp == nil {
		return nil
	}
	if !strings.HasPrefix(key, "(") {
		return sp.Func(key)
	}
	// (*T).M or (T).M
	close := strings.Index(key, ")")
	tn := key[1:close]
	ptr := false
	if strings.HasPrefix(tn, "*") {
		ptr = true
		tn = tn[1:]
	}
	mname := key[close+2:]
	obj := sp.Pkg.Scope().Lookup(tn)
	if obj == nil {
		return nil
	}
	var t types.Type = obj.Type()
	if ptr {
		t = types.NewPointer(t)
	}
	ms := w.Prog.MethodSets.MethodSet(t)
	for i := 0; i < ms.Len(); i++ {
		if ms.At(i).Obj().Name() == mname {
			return w.Prog.MethodValue(ms.At(i))
		}
	}
	return nil
}

func (w *World) typeID(t types.Type) int {
	w.idMu.Lock()
	defer w.idMu.Unlock()
	k := t.String()
	if id, ok := w.typeIDs[k]; ok {
		return id
	}
	id := len(w.typeIDs) + 1
	w.typeIDs[k] = id
	w.typeByID[id] = t
	return id
}

func (w *World) strLit(s string) int {
	w.idMu.Lock()
	defer w.idMu.Unlock()
	if id, ok := w.strLits[s]; ok {
		return id
	}
	id := len(w.strLits) + 1
	w.strLits[s] = id
	return id
}

func (w *World) pos(p token.Pos) string {
	if !p.IsValid() {
		return "?"
	}
	pp := w.Fset.Position(p)
	rel, err := filepath.Rel(repoDir, pp.Filename)
	if err != nil {
		rel = pp.Filename
	}
	return fmt.Sprintf("%s:%d", rel, pp.Line)
}

// methodsOf returns all methods (pointer and value receivers) of the named type, e.g. "(*printer)".
func (w *World) methodsOf(pkgPath, recv string) []*ssa.Function {
	sp := w.SSAPkgs[pkgPath]
	if sp == nil {
		return nil
	}
	tn := strings.Trim(recv, "()*")
	obj := sp.Pkg.Scope().Lookup(tn)
	if obj == nil {
		return nil
	}
	var out []*ssa.Function
	ms := w.Prog.MethodSets.MethodSet(types.NewPointer(obj.Type()))
	for i := 0; i < ms.Len(); i++ {
		if fn := w.Prog.MethodValue(ms.At(i)); fn != nil && fn.Blocks != nil && fn.Synthetic == "" {
			out = append(out, fn)
		}
	}
	sort.Slice(out, func(i, j int) bool { return out[i].Name() < out[j].Name() })
	return out
}

// pureHelper: a module function with results that writes nothing (syntactic write keys empty)
// is treated as a value-level function application in traces.
func (w *World) pureHelper(fn *ssa.Function) bool {
	if fn.Blocks == nil || !strings.HasPrefix(funcPkgPath(fn), modPath) {
		return fn.Signature.Results().Len() > 0 && fn.Blocks == nil && false
	}
	if fn.Signature.Results().Len() == 0 {
		return false
	}
	wk := w.writeKeys(fn)
	for k := range wk {
		if !strings.HasPrefix(k, "C:") {
			return false
		}
	}
	// must not call through interfaces or function values
	for _, b := range fn.Blocks {
		for _, in := range b.Instrs {
			if c, ok := in.(ssa.CallInstruction); ok {
				cc := c.Common()
				if _, isB := cc.Value.(*ssa.Builtin); isB {
					continue
				}
				if cc.IsInvoke() || cc.StaticCallee() == nil {
					return false
				}
			}
		}
	}
	return true
}


// namedPtr resolves "pkg/ast.Name" to the type *<module>/pkg/ast.Name (nil if there is no such type).
func (w *World) namedPtr(name string) types.Type {
	i := strings.LastIndex(name, ".")
	if i < 0 {
		return nil
	}
	p := w.PkgByPath[modPath+"/"+name[:i]]
	if p == nil {
		return nil
	}
	o := p.Types.Scope().Lookup(name[i+1:])
	if o == nil {
		return nil
	}
	return types.NewPointer(o.Type())
}
