package main

// Symbolic core: SSA values -> SMT terms, heap model, allocation.
//
// Memory model (Burstall-Bornat, flat references):
//   * a reference is an Int; 0 is nil; `alloc` is a monotone counter, every live
//     reference is < alloc; memory at and above alloc is zero.
//   * a struct object at ref r keeps field f in heap array F:<Type>.<f>[r]; a nested
//     struct-typed field lives at r+offset; an array of n structs of size s at base a
//     occupies a, a+s, ..., a+(n-1)s.
//   * elements of non-struct slices/arrays live in E:<elemtype>[arr][index].
//   * slices are (arr, off, len, cap); interfaces are (tag, ref); strings, funcs and maps
//     are Int identities (strings: identity = contents).

import (
	"fmt"
	"go/ast"
	"go/constant"
	"go/token"
	"go/types"
	"math/big"
	"strings"

	"golang.org/x/tools/go/ast/astutil"
	"golang.org/x/tools/go/ssa"
)

type Val interface{}

type SliceV struct{ Arr, Off, Len, Cap *Term }
type IfaceV struct{ Tag, Ref *Term }
type StructV struct {
	T      *types.Struct
	Fields []Val
}
type TupleV []Val

// ArrayV is an array *value* (a copy of an array, as `range` over an array makes): its elements are not tracked.
type ArrayV struct{ T *types.Array }

// PtrV points to a non-struct location.
type PtrV struct {
	Kind string // "field", "elem", "cell", "array"
	Key  string // heap key base
	Ref  *Term  // object ref / array id / cell ref
	Idx  *Term  // elem: absolute index
	Off  *Term  // elem: offset of the slice window
	Rel  *Term  // elem: index relative to the window (Idx == Off + Rel)
	T    types.Type
}

type State struct {
	Guard *Term
	Heap  map[string]*Term
	Alloc *Term
}

func (s *State) clone() *State {
	h := make(map[string]*Term, len(s.Heap))
	for k, v := range s.Heap {
		h[k] = v
	}
	return &State{Guard: s.Guard, Heap: h, Alloc: s.Alloc}
}

type OutOfSubset struct{ Msg string }

func (e OutOfSubset) Error() string { return e.Msg }

func oos(f string, a ...interface{}) {
	panic(OutOfSubset{fmt.Sprintf(f, a...)})
}

// Exec is one verification unit (one function, one script).
type Exec struct {
	W        *World
	Sc       *Script
	Fn       *ssa.Function // top-level function being verified
	Props    []string
	Prefix   string // obligation name prefix "<pkg>.<key>"
	init     map[string]*Term
	siteCnt  map[string]int
	Assumed  map[string]bool // assumptions used (stdlib contracts, callbacks...)
	Inlined  map[string]bool
	Callees  map[string]bool // contracts relied upon
	depth    int
	noSafety bool
	inQuant  int
	inOld    int // inside old(...): identifiers denote entry values (parameters), not loop variables
	// E-SCAN mode
	lite      bool                           // keep store terms inline so that loads of just-stored constants fold
	mapFn     func(*ssa.Function) *ssa.Function // callee translation (naive-form program -> main program)
	lazyEnv   func(v ssa.Value) Val          // value of an SSA value defined outside the executed region
	skipAlloc map[*ssa.Alloc]PtrV            // locals with pre-assigned cells
	onCall    func(st *State, callee *ssa.Function, args []Val) // observer of calls (E-SCAN ghost state)
	curLabel  string                         // enclosing label (prefix of safety obligation sites)
	// E-DRV mode
	roTables    map[string]bool          // read-only package-level int arrays: element loads become uf_<name>(i)
	constGlobal map[string]Val           // package-level scalars proved constant (cell key -> value)
	skipStruct  map[*ssa.Alloc]*Term     // struct-typed locals with pre-assigned refs
	closures    map[ssa.Value]*ssa.MakeClosure
	ifaceImpl   map[string]*types.Named  // interface type name -> its unique in-module implementation (pointer receiver)
	assumeReq   func(callee string, r *CExpr) bool // requires-clauses that are assumed (listed) instead of obliged
	afterInstr  func(fc *frameCtx, st *State, in ssa.Instruction)
	extraBinds  binds // identifiers available in every contract expression (table lengths)
}

func newExec(w *World, fn *ssa.Function, props []string) *Exec {
	name := shortPkg(funcPkgPath(fn)) + "." + funcKey(fn)
	return &Exec{W: w, Sc: NewScript(name), Fn: fn, Props: props, Prefix: name,
		init: map[string]*Term{}, siteCnt: map[string]int{}, Assumed: map[string]bool{}, Inlined: map[string]bool{}, Callees: map[string]bool{}}
}

// ---------------------------------------------------------------------------
// types

func isStruct(t types.Type) (*types.Struct, bool) {
	s, ok := t.Underlying().(*types.Struct)
	return s, ok
}

func typeName(t types.Type) string {
	switch tt := t.(type) {
	case *types.Named:
		if tt.Obj().Pkg() != nil {
			return shortPkg(tt.Obj().Pkg().Path()) + "." + tt.Obj().Name()
		}
		return tt.Obj().Name()
	case *types.Pointer:
		return "*" + typeName(tt.Elem())
	case *types.Slice:
		return "[]" + typeName(tt.Elem())
	case *types.Alias:
		return typeName(types.Unalias(tt))
	}
	return t.String()
}

// structSize is the number of refs an object of type t occupies.
func structSize(t types.Type) int64 {
	switch u := t.Underlying().(type) {
	case *types.Struct:
		n := int64(1)
		for i := 0; i < u.NumFields(); i++ {
			ft := u.Field(i).Type()
			switch fu := ft.Underlying().(type) {
			case *types.Struct:
				n += structSize(ft)
			case *types.Array:
				if _, ok := isStruct(fu.Elem()); ok {
					n += fu.Len() * structSize(fu.Elem())
				}
			}
		}
		return n
	}
	return 1
}

func fieldOffset(st *types.Struct, idx int) int64 {
	off := int64(1)
	for i := 0; i < idx; i++ {
		ft := st.Field(i).Type()
		switch fu := ft.Underlying().(type) {
		case *types.Struct:
			off += structSize(ft)
		case *types.Array:
			if _, ok := isStruct(fu.Elem()); ok {
				off += fu.Len() * structSize(fu.Elem())
			}
		}
	}
	return off
}

func isPositionPtr(t types.Type) bool {
	p, ok := t.(*types.Pointer)
	if !ok {
		return false
	}
	n, ok := p.Elem().(*types.Named)
	return ok && n.Obj().Pkg() != nil && n.Obj().Pkg().Path() == modPath+"/pkg/position" && n.Obj().Name() == "Position"
}

const posKey = "F:*.Position"

// fieldKey names the heap array of field i of (named) struct type t. Every field called
// Position of type *position.Position shares one array, so that the interface method
// GetPosition() is a single select whatever the dynamic type (refs of distinct objects differ).
func fieldKey(t types.Type, st *types.Struct, i int) string {
	f := st.Field(i)
	if f.Name() == "Position" && isPositionPtr(f.Type()) {
		return posKey
	}
	return "F:" + typeName(t) + "." + f.Name()
}

// components of a value type: suffix -> sort of the stored scalar
type comp struct {
	Suffix string
	Sort   string
}

func compsOf(t types.Type) []comp {
	switch u := t.Underlying().(type) {
	case *types.Basic:
		if u.Info()&types.IsBoolean != 0 {
			return []comp{{"", SBool}}
		}
		if u.Info()&(types.IsInteger|types.IsString) != 0 || u.Kind() == types.UnsafePointer {
			return []comp{{"", SInt}}
		}
		if u.Kind() == types.UntypedNil {
			return []comp{{"", SInt}}
		}
		oos("unsupported basic type %s", t)
	case *types.Pointer, *types.Signature, *types.Map, *types.Chan:
		return []comp{{"", SInt}}
	case *types.Slice:
		return []comp{{".arr", SInt}, {".off", SInt}, {".len", SInt}, {".cap", SInt}}
	case *types.Interface:
		return []comp{{".tag", SInt}, {".ref", SInt}}
	}
	oos("unsupported type for heap storage: %s", t)
	return nil
}

func flatten(v Val) []*Term {
	switch x := v.(type) {
	case *Term:
		return []*Term{x}
	case SliceV:
		return []*Term{x.Arr, x.Off, x.Len, x.Cap}
	case IfaceV:
		return []*Term{x.Tag, x.Ref}
	}
	panic(fmt.Sprintf("flatten: unsupported value %T", v))
}

func unflatten(t types.Type, ts []*Term) Val {
	switch t.Underlying().(type) {
	case *types.Slice:
		return SliceV{ts[0], ts[1], ts[2], ts[3]}
	case *types.Interface:
		return IfaceV{ts[0], ts[1]}
	}
	return ts[0]
}

func intRange(t types.Type) (lo, hi *big.Int, ok bool) {
	b, isB := t.Underlying().(*types.Basic)
	if !isB || b.Info()&types.IsInteger == 0 {
		return nil, nil, false
	}
	pow := func(n uint) *big.Int { return new(big.Int).Lsh(big.NewInt(1), n) }
	switch b.Kind() {
	case types.Uint8:
		return big.NewInt(0), new(big.Int).Sub(pow(8), big.NewInt(1)), true
	case types.Uint16:
		return big.NewInt(0), new(big.Int).Sub(pow(16), big.NewInt(1)), true
	case types.Uint32:
		return big.NewInt(0), new(big.Int).Sub(pow(32), big.NewInt(1)), true
	case types.Uint64, types.Uint, types.Uintptr:
		return big.NewInt(0), new(big.Int).Sub(pow(64), big.NewInt(1)), true
	case types.Int8:
		return new(big.Int).Neg(pow(7)), new(big.Int).Sub(pow(7), big.NewInt(1)), true
	case types.Int16:
		return new(big.Int).Neg(pow(15)), new(big.Int).Sub(pow(15), big.NewInt(1)), true
	case types.Int32:
		return new(big.Int).Neg(pow(31)), new(big.Int).Sub(pow(31), big.NewInt(1)), true
	}
	return nil, nil, false // int, int64: mathematical integers (standing assumption)
}

// ---------------------------------------------------------------------------
// heap access

func (x *Exec) heapGet(s *State, key, sort string) *Term {
	if t, ok := s.Heap[key]; ok {
		return t
	}
	if t, ok := x.init[key]; ok {
		return t
	}
	t := x.Sc.Declare("H0_"+sanitize(key), sort)
	x.init[key] = t
	return t
}

func (x *Exec) heapSet(s *State, key string, t *Term) {
	if x.lite {
		s.Heap[key] = t
		return
	}
	s.Heap[key] = x.Sc.Define("H_"+sanitize(key), t)
}

// zeroTerm for a sort
func zeroOf(sort string) *Term {
	switch sort {
	case SInt:
		return mkInt(0)
	case SBool:
		return tFalse
	}
	return mkApp("(as const "+sort+")", sort, zeroOf(elemSort(sort)))
}

func (x *Exec) zeroVal(t types.Type) Val {
	switch u := t.Underlying().(type) {
	case *types.Struct:
		sv := StructV{T: u}
		for i := 0; i < u.NumFields(); i++ {
			sv.Fields = append(sv.Fields, x.zeroVal(u.Field(i).Type()))
		}
		return sv
	case *types.Slice:
		return SliceV{mkInt(0), mkInt(0), mkInt(0), mkInt(0)}
	case *types.Interface:
		return IfaceV{mkInt(0), mkInt(0)}
	case *types.Basic:
		if u.Info()&types.IsBoolean != 0 {
			return tFalse
		}
		if u.Info()&types.IsString != 0 {
			return mkInt(int64(x.W.strLit("")))
		}
		return mkInt(0)
	case *types.Tuple:
		var tv TupleV
		for i := 0; i < u.Len(); i++ {
			tv = append(tv, x.zeroVal(u.At(i).Type()))
		}
		return tv
	}
	return mkInt(0)
}

// assumeWF adds the standing well-formedness facts for a value of type t that was
// read from memory, received as a parameter or produced by havoc.
func (x *Exec) assumeWF(s *State, v Val, t types.Type) {
	g := s.Guard
	add := func(f *Term) { x.Sc.Assert(tImp(g, f)) }
	switch u := t.Underlying().(type) {
	case *types.Basic:
		if lo, hi, ok := intRange(t); ok {
			tv := v.(*Term)
			add(tAnd(tLe(mkBig(lo), tv), tLe(tv, mkBig(hi))))
		}
		if u.Info()&types.IsString != 0 {
			add(tGe(x.strLen(v.(*Term)), mkInt(0)))
		}
	case *types.Pointer:
		tv := v.(*Term)
		add(tAnd(tLe(mkInt(0), tv), tLt(tv, s.Alloc)))
	case *types.Map, *types.Signature, *types.Chan:
		tv := v.(*Term)
		add(tLe(mkInt(0), tv))
	case *types.Slice:
		sv := v.(SliceV)
		sz := structSize(u.Elem())
		add(tAnd(tLe(mkInt(0), sv.Arr), tLt(sv.Arr, s.Alloc), tLe(mkInt(0), sv.Off), tLe(mkInt(0), sv.Len), tLe(sv.Len, sv.Cap),
			tImp(tEq(sv.Arr, mkInt(0)), tAnd(tEq(sv.Cap, mkInt(0)), tEq(sv.Off, mkInt(0))))))
		if _, ok := isStruct(u.Elem()); ok {
			add(tLe(tAdd(sv.Arr, tMul(tAdd(sv.Off, sv.Cap), mkInt(sz))), s.Alloc))
		}
	case *types.Interface:
		iv := v.(IfaceV)
		add(tAnd(tLe(mkInt(0), iv.Tag), tLe(mkInt(0), iv.Ref), tLt(iv.Ref, s.Alloc), tImp(tEq(iv.Tag, mkInt(0)), tEq(iv.Ref, mkInt(0)))))
	case *types.Struct:
		sv := v.(StructV)
		for i := 0; i < u.NumFields(); i++ {
			x.assumeWF(s, sv.Fields[i], u.Field(i).Type())
		}
	}
}

// freshVal creates an unconstrained symbolic value of type t (plus WF facts).
func (x *Exec) freshVal(s *State, name string, t types.Type) Val {
	var v Val
	switch u := t.Underlying().(type) {
	case *types.Struct:
		sv := StructV{T: u}
		for i := 0; i < u.NumFields(); i++ {
			sv.Fields = append(sv.Fields, x.freshValNoWF(name+"."+u.Field(i).Name(), u.Field(i).Type()))
		}
		v = sv
	default:
		v = x.freshValNoWF(name, t)
	}
	x.assumeWF(s, v, t)
	return v
}

func (x *Exec) freshValNoWF(name string, t types.Type) Val {
	switch u := t.Underlying().(type) {
	case *types.Struct:
		sv := StructV{T: u}
		for i := 0; i < u.NumFields(); i++ {
			sv.Fields = append(sv.Fields, x.freshValNoWF(name+"."+u.Field(i).Name(), u.Field(i).Type()))
		}
		return sv
	case *types.Tuple:
		var tv TupleV
		for i := 0; i < u.Len(); i++ {
			tv = append(tv, x.freshValNoWF(fmt.Sprintf("%s.%d", name, i), u.At(i).Type()))
		}
		return tv
	}
	cs := compsOf(t)
	ts := make([]*Term, len(cs))
	for i, c := range cs {
		ts[i] = x.Sc.Fresh(name+c.Suffix, c.Sort)
	}
	return unflatten(t, ts)
}

func (x *Exec) strLen(id *Term) *Term {
	x.Sc.DeclareFun("str.len", []string{SInt}, SInt)
	return mkApp("str.len", SInt, id)
}

func (x *Exec) strByte(id, i *Term) *Term {
	x.Sc.DeclareFun("str.at", []string{SInt, SInt}, SInt)
	return mkApp("str.at", SInt, id, i)
}

func (x *Exec) strConst(sv string) *Term {
	id := mkInt(int64(x.W.strLit(sv)))
	key := fmt.Sprintf("strlit:%d", id.ival.Int64())
	if !x.Assumed[key] {
		x.Assumed[key] = true
		x.Sc.AssertTop(tEq(x.strLen(id), mkInt(int64(len(sv)))))
		if len(sv) <= 16 {
			for i := 0; i < len(sv); i++ {
				x.Sc.AssertTop(tEq(x.strByte(id, mkInt(int64(i))), mkInt(int64(sv[i]))))
			}
		}
	}
	return id
}

// objRef returns the ref of the struct object denoted by a location.
func (x *Exec) loadStruct(s *State, ref *Term, t types.Type) StructV {
	st, _ := isStruct(t)
	sv := StructV{T: st}
	for i := 0; i < st.NumFields(); i++ {
		sv.Fields = append(sv.Fields, x.loadField(s, ref, t, st, i))
	}
	return sv
}

func (x *Exec) loadField(s *State, ref *Term, t types.Type, st *types.Struct, i int) Val {
	ft := st.Field(i).Type()
	if _, ok := isStruct(ft); ok {
		return x.loadStruct(s, tAdd(ref, mkInt(fieldOffset(st, i))), ft)
	}
	return x.loadLoc(s, PtrV{Kind: "field", Key: fieldKey(t, st, i), Ref: ref, T: ft})
}

func (x *Exec) storeStruct(s *State, ref *Term, t types.Type, v StructV) {
	st, _ := isStruct(t)
	for i := 0; i < st.NumFields(); i++ {
		ft := st.Field(i).Type()
		if _, ok := isStruct(ft); ok {
			x.storeStruct(s, tAdd(ref, mkInt(fieldOffset(st, i))), ft, v.Fields[i].(StructV))
			continue
		}
		x.storeLoc(s, PtrV{Kind: "field", Key: fieldKey(t, st, i), Ref: ref, T: ft}, v.Fields[i])
	}
}

func (x *Exec) loadLoc(s *State, p PtrV) Val {
	if at, ok := p.T.Underlying().(*types.Array); ok {
		if x.roTables == nil {
			oos("load of array value")
		}
		return ArrayV{at} // contents not tracked: elements read from the copy are unconstrained
	}
	cs := compsOf(p.T)
	ts := make([]*Term, len(cs))
	for i, c := range cs {
		switch p.Kind {
		case "field", "cell":
			ts[i] = tSelect(x.heapGet(s, p.Key+c.Suffix, arrSort(c.Sort)), p.Ref)
		case "elem":
			ts[i] = x.elemRead(tSelect(x.heapGet(s, p.Key+c.Suffix, arrSort(arrSort(c.Sort))), p.Ref), p, c.Sort)
		case "rotable":
			x.Sc.DeclareFun(p.Key, []string{SInt}, SInt)
			ts[i] = mkApp(p.Key, SInt, p.Idx)
		default:
			oos("load through %s pointer", p.Kind)
		}
	}
	v := unflatten(p.T, ts)
	// name loaded values to keep terms small, then assume well-formedness
	ts2 := flatten(v)
	for i := range ts2 {
		ts2[i] = x.Sc.Define("ld", ts2[i])
	}
	v = unflatten(p.T, ts2)
	x.assumeWF(s, v, p.T)
	return v
}

func (x *Exec) storeLoc(s *State, p PtrV, v Val) {
	cs := compsOf(p.T)
	ts := flatten(x.coerce(v, p.T))
	for i, c := range cs {
		switch p.Kind {
		case "field", "cell":
			h := x.heapGet(s, p.Key+c.Suffix, arrSort(c.Sort))
			x.heapSet(s, p.Key+c.Suffix, tStore(h, p.Ref, ts[i]))
		case "elem":
			h := x.heapGet(s, p.Key+c.Suffix, arrSort(arrSort(c.Sort)))
			inner := tSelect(h, p.Ref)
			x.heapSet(s, p.Key+c.Suffix, tStore(h, p.Ref, tStore(inner, p.Idx, ts[i])))
		default:
			oos("store through %s pointer", p.Kind)
		}
	}
}

// coerce adapts nil constants to the expected shape.
func (x *Exec) coerce(v Val, t types.Type) Val {
	if tv, ok := v.(*Term); ok {
		switch t.Underlying().(type) {
		case *types.Slice:
			if tv.isInt() {
				return SliceV{tv, mkInt(0), mkInt(0), mkInt(0)}
			}
		case *types.Interface:
			if tv.isInt() {
				return IfaceV{tv, mkInt(0)}
			}
		}
	}
	return v
}

func elemKey(t types.Type) string { return "E:" + typeName(t) }
func cellKey(t types.Type) string { return "C:" + typeName(t) }

// allocate n refs; returns the base ref.
func (x *Exec) bump(s *State, n *Term) *Term {
	base := s.Alloc
	s.Alloc = x.Sc.Define("alloc", tAdd(base, n))
	return base
}

// newObject allocates a zeroed object of type t and returns a pointer value.
func (x *Exec) newObject(s *State, t types.Type) Val {
	switch u := t.Underlying().(type) {
	case *types.Struct:
		ref := x.bump(s, mkInt(structSize(t)))
		x.zeroStruct(s, ref, t)
		return ref
	case *types.Array:
		if _, ok := isStruct(u.Elem()); ok {
			sz := structSize(u.Elem())
			ref := x.bump(s, mkInt(u.Len()*sz+1))
			if u.Len() <= 8 {
				for i := int64(0); i < u.Len(); i++ {
					x.zeroStruct(s, tAdd(ref, mkInt(i*sz)), u.Elem())
				}
			}
			return PtrV{Kind: "array", Key: "", Ref: ref, T: t}
		}
		ref := x.bump(s, mkInt(1))
		x.zeroArray(s, ref, u.Elem())
		return PtrV{Kind: "array", Key: elemKey(u.Elem()), Ref: ref, T: t}
	}
	ref := x.bump(s, mkInt(1))
	p := PtrV{Kind: "cell", Key: cellKey(t), Ref: ref, T: t}
	x.storeLoc(s, p, x.zeroVal(t))
	return p
}

// zero facts are instances of the model invariant "memory at and above alloc is zero".
func (x *Exec) zeroStruct(s *State, ref *Term, t types.Type) {
	st, _ := isStruct(t)
	for i := 0; i < st.NumFields(); i++ {
		ft := st.Field(i).Type()
		if _, ok := isStruct(ft); ok {
			x.zeroStruct(s, tAdd(ref, mkInt(fieldOffset(st, i))), ft)
			continue
		}
		if _, ok := ft.Underlying().(*types.Array); ok {
			continue
		}
		for _, c := range compsOf(ft) {
			key := fieldKey(t, st, i) + c.Suffix
			h := x.heapGet(s, key, arrSort(c.Sort))
			z := zeroOf(c.Sort)
			if ft.Underlying() == types.Typ[types.String] {
				z = x.strConst("")
			}
			x.Sc.Assert(tImp(s.Guard, tEq(tSelect(h, ref), z)))
		}
	}
	if gfs := x.ghostFieldsOf(t); len(gfs) > 0 {
		for _, g := range gfs {
			key := "F:" + typeName(t) + "." + g.Name
			srt := ghostSort(g.Sort)
			h := x.heapGet(s, key, arrSort(srt))
			x.Sc.Assert(tImp(s.Guard, tEq(tSelect(h, ref), zeroOf(srt))))
		}
	}
}

func ghostSort(s string) string {
	switch s {
	case "int":
		return SInt
	case "bool":
		return SBool
	case "set":
		return SArrIB
	}
	panic("unknown ghost sort " + s)
}

func (x *Exec) ghostFieldsOf(t types.Type) []GhostField {
	n, ok := t.(*types.Named)
	if !ok || n.Obj().Pkg() == nil {
		return nil
	}
	cf := x.W.CFiles[n.Obj().Pkg().Path()]
	if cf == nil {
		return nil
	}
	var out []GhostField
	for _, g := range cf.Ghosts {
		if g.Type == n.Obj().Name() {
			out = append(out, g)
		}
	}
	return out
}

func (x *Exec) zeroArray(s *State, arr *Term, elem types.Type) {
	for _, c := range compsOf(elem) {
		key := elemKey(elem) + c.Suffix
		h := x.heapGet(s, key, arrSort(arrSort(c.Sort)))
		x.Sc.Assert(tImp(s.Guard, tEq(tSelect(h, arr), zeroOf(arrSort(c.Sort)))))
	}
}

// makeSlice allocates a zeroed backing array of cap elements.
func (x *Exec) makeSlice(s *State, elem types.Type, ln, cp *Term) SliceV {
	if _, ok := isStruct(elem); ok {
		sz := structSize(elem)
		arr := x.bump(s, tAdd(tMul(cp, mkInt(sz)), mkInt(1)))
		// zero facts for every element, quantified over the index
		st, _ := isStruct(elem)
		i := mkConst("zi", SInt)
		for f := 0; f < st.NumFields(); f++ {
			ft := st.Field(f).Type()
			if _, ok := isStruct(ft); ok {
				continue // nested structs inside pooled elements: not needed so far
			}
			if _, ok := ft.Underlying().(*types.Array); ok {
				continue
			}
			for _, c := range compsOf(ft) {
				key := fieldKey(elem, st, f) + c.Suffix
				h := x.heapGet(s, key, arrSort(c.Sort))
				z := zeroOf(c.Sort)
				sel := mkApp("select", c.Sort, h, tAdd(arr, tMul(i, mkInt(sz))))
				body := tImp(tAnd(tLe(mkInt(0), i), tLt(i, cp)), tEq(sel, z))
				if sz == 1 {
					// quantify over the ref itself so that (select h r) is a usable pattern
					r := mkConst("zr", SInt)
					sel = mkApp("select", c.Sort, h, r)
					body = tImp(tAnd(tLe(arr, r), tLt(r, tAdd(arr, cp))), tEq(sel, z))
					x.Sc.Assert(tImp(s.Guard, tForallPat([]*Term{r}, body, sel)))
					continue
				}
				x.Sc.Assert(tImp(s.Guard, tForall([]*Term{i}, body)))
			}
		}
		return SliceV{arr, mkInt(0), ln, cp}
	}
	arr := x.bump(s, mkInt(1))
	x.zeroArray(s, arr, elem)
	return SliceV{arr, mkInt(0), ln, cp}
}

// elemLoc returns the pointer value for element k (relative to slice start).
func (x *Exec) elemPtr(sv SliceV, elem types.Type, k *Term) Val {
	abs := tAdd(sv.Off, k)
	if _, ok := isStruct(elem); ok {
		return tAdd(sv.Arr, tMul(abs, mkInt(structSize(elem))))
	}
	return PtrV{Kind: "elem", Key: elemKey(elem), Ref: sv.Arr, Idx: abs, Off: sv.Off, Rel: k, T: elem}
}

// ---------------------------------------------------------------------------
// obligations

func (x *Exec) site(cls, text string) string {
	k := cls + "/" + text
	x.siteCnt[k]++
	if n := x.siteCnt[k]; n > 1 {
		return fmt.Sprintf("%s#%d", text, n)
	}
	return text
}

func (x *Exec) oblige(s *State, cls, site string, pos token.Pos, cond *Term, inputs []*Term) {
	name := x.Prefix + "/" + cls + "/" + x.site(cls, site)
	parts := []*Term{cond}
	if cond.op == "and" && (strings.HasPrefix(cls, "pre:") || strings.HasPrefix(cls, "inv-") || (x.lite && strings.HasPrefix(cls, "post:"))) {
		parts = cond.args
	}
	for i, c := range parts {
		n := name
		if len(parts) > 1 {
			n = fmt.Sprintf("%s&%d", name, i)
		}
		goal := tImp(s.Guard, c)
		o := &Obligation{Name: n, Class: cls, Props: x.Props, Goal: goal, Site: x.W.pos(pos), Inputs: inputs}
		x.Sc.AddObligation(o)
		// after the check, the condition may be assumed on this path
		x.Sc.Assert(goal)
	}
}

func (x *Exec) safety(s *State, cls string, pos token.Pos, instr ssa.Instruction, cond *Term) {
	if x.noSafety {
		x.Sc.Assert(tImp(s.Guard, cond))
		return
	}
	if cond.isTrue() {
		return
	}
	text := x.exprText(instr, pos)
	if x.curLabel != "" {
		text = x.curLabel + ":" + text
	}
	x.oblige(s, cls, text, pos, cond, nil)
}

// exprText renders the source expression at an instruction.
func (x *Exec) exprText(instr ssa.Instruction, pos token.Pos) string {
	if !pos.IsValid() {
		if instr != nil {
			return instr.String()
		}
		return "?"
	}
	var file *ast.File
	for _, p := range x.W.PkgByPath {
		for _, f := range p.Syntax {
			if f.Pos() <= pos && pos < f.End() {
				file = f
			}
		}
	}
	if file == nil {
		return instr.String()
	}
	path, _ := astutil.PathEnclosingInterval(file, pos, pos)
	for _, n := range path {
		switch e := n.(type) {
		case *ast.IndexExpr, *ast.SliceExpr, *ast.SelectorExpr, *ast.CallExpr, *ast.StarExpr, *ast.TypeAssertExpr, *ast.UnaryExpr, *ast.BinaryExpr:
			s := types.ExprString(e.(ast.Expr))
			if len(s) > 80 {
				s = s[:80]
			}
			return s
		}
	}
	return instr.String()
}

// ---------------------------------------------------------------------------
// constants

func (x *Exec) constVal(c *ssa.Const) Val {
	t := c.Type()
	if c.Value == nil {
		return x.zeroVal(t)
	}
	switch u := t.Underlying().(type) {
	case *types.Basic:
		switch {
		case u.Info()&types.IsBoolean != 0:
			return mkBool(constant.BoolVal(c.Value))
		case u.Info()&types.IsInteger != 0:
			v := constant.ToInt(c.Value)
			bi, ok := new(big.Int).SetString(v.ExactString(), 10)
			if !ok {
				oos("bad int const %s", v)
			}
			return mkBig(bi)
		case u.Info()&types.IsString != 0:
			return x.strConst(constant.StringVal(c.Value))
		}
	}
	oos("unsupported constant %s of type %s", c, t)
	return nil
}

func isNilConst(v ssa.Value) bool {
	c, ok := v.(*ssa.Const)
	return ok && c.Value == nil
}

// nilTest returns the term "v == nil" for a value of type t.
func nilTest(v Val, t types.Type) *Term {
	switch x := v.(type) {
	case *Term:
		return tEq(x, mkInt(0))
	case SliceV:
		return tEq(x.Arr, mkInt(0))
	case IfaceV:
		return tEq(x.Tag, mkInt(0))
	}
	panic(fmt.Sprintf("nilTest on %T", v))
}

func describeVal(v Val) string {
	switch x := v.(type) {
	case *Term:
		return x.String()
	case SliceV:
		return fmt.Sprintf("slice(%s,%s,%s,%s)", x.Arr, x.Off, x.Len, x.Cap)
	case IfaceV:
		return fmt.Sprintf("iface(%s,%s)", x.Tag, x.Ref)
	case StructV:
		var parts []string
		for _, f := range x.Fields {
			parts = append(parts, describeVal(f))
		}
		return "{" + strings.Join(parts, ",") + "}"
	}
	return fmt.Sprintf("%T", v)
}

// elemRead reads element (off+rel) of an inner array through the uninterpreted accessor at.<sort>,
// defined by the axiom at(A, o, i) = A[o+i]. Keeping the addition out of the select index lets
// quantified contracts (sorted, frames over elements) be instantiated by E-matching.
func (x *Exec) elemRead(inner *Term, p PtrV, sort string) *Term {
	if p.Off == nil || p.Rel == nil || (p.Off.isInt() && p.Off.ival.Sign() == 0) {
		return tSelect(inner, p.Idx)
	}
	name := "at." + sort
	if _, ok := x.Sc.decls[name]; !ok {
		x.Sc.DeclareFun(name, []string{arrSort(sort), SInt, SInt}, sort)
		a, o, i := mkConst("at_a", arrSort(sort)), mkConst("at_o", SInt), mkConst("at_i", SInt)
		app := mkApp(name, sort, a, o, i)
		x.Sc.AssertTop(tForallPat([]*Term{a, o, i}, mkApp("=", SBool, app, mkApp("select", sort, a, mkApp("+", SInt, o, i))), app))
	}
	return mkApp(name, sort, inner, p.Off, p.Rel)
}
