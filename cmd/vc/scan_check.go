package main

// Wiring of E-SCAN into the property checks.

import (
	"bufio"
	"crypto/sha256"
	"encoding/hex"
	"encoding/json"
	"fmt"
	"os"
	"path/filepath"
	"sort"
	"strings"
	"time"
)

type scanBaselineEntry struct {
	Obligation string `json:"obligation"` // name or glob
	Reason     string `json:"reason"`
}

// loadScanBaseline: obligations of the scanner machine that the invariant template cannot
// discharge on the pinned tree and for which no failing input exists (they depend on facts about
// the language of the generated automaton). They are withdrawn from the claim: reported as
// `unproved` in the evidence, never as violations, never as discharged.
func loadScanBaseline() []scanBaselineEntry {
	f, err := os.Open(filepath.Join(verifDir, "scan_unproved.jsonl"))
	if err != nil {
		return nil
	}
	defer f.Close()
	var out []scanBaselineEntry
	sc := bufio.NewScanner(f)
	sc.Buffer(make([]byte, 1<<20), 1<<20)
	for sc.Scan() {
		l := strings.TrimSpace(sc.Text())
		if l == "" || strings.HasPrefix(l, "#") {
			continue
		}
		var e scanBaselineEntry
		if json.Unmarshal([]byte(l), &e) == nil && e.Obligation != "" {
			out = append(out, e)
		}
	}
	return out
}

// scanWants selects the obligations of the machine that serve a property.
func scanWants(prop string, o *Obligation) bool {
	switch prop {
	case "C01":
		// no panic inside Lex, helper preconditions, and the representation invariant that makes the
		// next call safe
		switch {
		case o.Class == "idx", o.Class == "slice", o.Class == "nil", o.Class == "div", o.Class == "assert", o.Class == "panic":
			return true
		case strings.HasPrefix(o.Class, "pre:"):
			return true
		case o.Class == "post:0", o.Class == "post:1", o.Class == "post:4", o.Class == "progress":
			return true
		}
		return false
	case "C04", "C02":
		switch {
		case strings.HasPrefix(o.Class, "pre:") && (strings.Contains(o.Class, "addFreeFloatingToken") || strings.Contains(o.Class, "setTokenPosition") || strings.Contains(o.Class, "NewLines")):
			return true
		case o.Class == "post:2", o.Class == "post:3", strings.HasPrefix(o.Class, "tile:"):
			return true
		case o.Class == "newline":
			return prop == "C04"
		}
		return false
	}
	return false
}

// scanCacheKey: hash of everything the inferred invariant depends on.
func scanCacheKey(w *World) string {
	h := sha256.New()
	dir := filepath.Join(repoDir, "internal", "scanner")
	ents, _ := os.ReadDir(dir)
	for _, e := range ents {
		if strings.HasSuffix(e.Name(), ".go") && !strings.HasSuffix(e.Name(), "_test.go") {
			b, _ := os.ReadFile(filepath.Join(dir, e.Name()))
			h.Write([]byte(e.Name()))
			h.Write(b)
		}
	}
	for _, p := range []string{"pkg/token", "pkg/position"} {
		b, _ := os.ReadFile(filepath.Join(repoDir, p, "zz_contracts_verif.go"))
		h.Write(b)
		b, _ = os.ReadFile(filepath.Join(repoDir, p, "pool.go"))
		h.Write(b)
	}
	if exe, err := os.Executable(); err == nil {
		if st, err := os.Stat(exe); err == nil {
			fmt.Fprintf(h, "%d %d", st.Size(), st.ModTime().UnixNano())
		}
	}
	return hex.EncodeToString(h.Sum(nil))[:24]
}

// addScan runs the scanner engine and adds the obligations that serve the property.
func (c *CheckCtx) addScan() {
	t0 := time.Now()
	se, err := newScanEngine(c.W, []string{c.Prop})
	if err == nil {
		err = se.instantiate()
	}
	if err != nil {
		c.Extra = append(c.Extra, &Obligation{Name: "internal/scanner.(*Lexer).Lex/subset/scanner-engine", Class: "subset", Status: "unknown", Solver: "generator", Output: "the scanner engine could not process Lex: " + err.Error()})
		return
	}
	c.ExtraFuncs = append(c.ExtraFuncs, "internal/scanner.(*Lexer).Lex (E-SCAN)")
	se.buildRegions(16)
	for _, ct := range se.order {
		if ct.region.err != "" {
			c.Extra = append(c.Extra, &Obligation{Name: "internal/scanner.(*Lexer).Lex/subset/region " + ct.name, Class: "subset", Status: "unknown", Solver: "generator", Output: "region left the modelled subset: " + ct.region.err})
		}
	}
	// the inferred invariant of an identical tree (same scanner sources, contracts and engine) is
	// reused as the starting point; it is re-proved below in any case
	cacheFile := filepath.Join(verifDir, ".cache", "scan-"+scanCacheKey(c.W)+".json")
	cached := false
	if data, err := os.ReadFile(cacheFile); err == nil && os.Getenv("VC_SCAN_NOCACHE") == "" {
		var dead map[string][]string
		if json.Unmarshal(data, &dead) == nil {
			cached = true
			for _, ct := range se.order {
				dm := map[string]bool{}
				for _, s := range dead[ct.name] {
					dm[s] = true
				}
				for _, cd := range ct.cands {
					if dm[cd.src] {
						cd.alive = false
					}
				}
			}
		}
	}
	rounds := se.houdini(16, 1000, false)
	if !cached || len(rounds) > 1 {
		dead := map[string][]string{}
		for _, ct := range se.order {
			for _, cd := range ct.cands {
				if !cd.alive {
					dead[ct.name] = append(dead[ct.name], cd.src)
				}
			}
		}
		os.MkdirAll(filepath.Dir(cacheFile), 0o755)
		data, _ := json.Marshal(dead)
		os.WriteFile(cacheFile, data, 0o644)
	}
	edgeChecks, obls := se.finalRound(16, 2000)
	baseline := loadScanBaseline()
	alive, total := 0, 0
	for _, ct := range se.order {
		for _, cd := range ct.cands {
			total++
			if cd.alive {
				alive++
			}
		}
	}
	nInv, nInvBad := 0, 0
	var unproved []string
	served := 0
	for _, o := range obls {
		if o.Class == "inv" {
			nInv++
			if o.Status != "unsat" {
				// cannot happen after the fixpoint; if it does the invariant is not inductive
				nInvBad++
				c.Extra = append(c.Extra, o)
			}
			continue
		}
		if !scanWants(c.Prop, o) {
			continue
		}
		served++
		o.Props = []string{c.Prop}
		if o.Status != "unsat" {
			matched := false
			for _, b := range baseline {
				if globMatch(b.Obligation, o.Name) {
					matched = true
					break
				}
			}
			if matched {
				unproved = append(unproved, o.Name)
				continue
			}
		}
		c.Extra = append(c.Extra, o)
	}
	// inductiveness of the surviving invariant is one aggregated obligation per cut
	perCut := map[string][2]int{}
	for _, ct := range se.order {
		for _, e := range ct.region.edges {
			if !e.cand.alive {
				continue
			}
			v := perCut[e.target.name]
			v[0]++
			if ct.region.x.Sc.Obls[e.obl].Status == "unsat" {
				v[1]++
			}
			perCut[e.target.name] = v
		}
	}
	var cutNames []string
	for n := range perCut {
		cutNames = append(cutNames, n)
	}
	sort.Strings(cutNames)
	for _, n := range cutNames {
		v := perCut[n]
		st := "unsat"
		if v[0] != v[1] {
			st = "unknown"
		}
		c.Extra = append(c.Extra, &Obligation{Name: "internal/scanner.(*Lexer).Lex/inv-inductive/" + n, Class: "inv", Status: st, Solver: "z3-new", Site: fmt.Sprintf("%d edge obligations", v[0])})
	}
	sort.Strings(unproved)
	var asm []string
	for l := range se.assumedEdges {
		asm = append(asm, l)
	}
	sort.Strings(asm)
	c.CoverageExtra["scanner_machine"] = map[string]interface{}{
		"function":                    "internal/scanner.(*Lexer).Lex (generated by ragel, verified as generated; go/ssa naive form)",
		"ssa_blocks":                  len(se.fn.Blocks),
		"cut_points":                  len(se.order),
		"cut_to_cut_paths":            se.totalPaths(),
		"candidate_invariants":        total,
		"surviving_invariants":        alive,
		"houdini_rounds":              rounds,
		"invariant_reused_from_cache": cached,
		"edge_obligations_proved":     edgeChecks,
		"obligations_for_property":    served,
		"unproved_withdrawn":          unproved,
		"unproved_note":               "obligations the invariant template cannot discharge on the pinned tree and for which no failing input is known (facts about the automaton's language); listed in /verif/scan_unproved.jsonl, excluded from the claim, never counted as discharged",
		"assumed_unreachable":         asm,
		"entry_states":                se.w.scanEntryStates(),
		"seconds":                     time.Since(t0).Seconds(),
	}
	if len(asm) > 0 {
		c.assume(fmt.Sprintf("ragel: at a `switch lex.act` the value of act is one of the case constants (the fall-through of these %d switches is assumed unreachable; property of the generated tables)", len(asm)))
	}
	c.assume("E-SCAN: the invariant of each cut point is inferred (Houdini over a template in the contract file) and then proved inductive in this run; the inference itself is not trusted")
}

func (se *scanEngine) totalPaths() int {
	n := 0
	for _, c := range se.order {
		n += c.region.nPaths
	}
	return n
}
