package main

// SMT term DAG with light simplification. Sorts are SMT-LIB sort strings.

import (
	"fmt"
	"math/big"
	"sort"
	"strings"
)

const (
	SInt   = "Int"
	SBool  = "Bool"
	SArrII = "(Array Int Int)"
	SArrIB = "(Array Int Bool)"
	SArr2I = "(Array Int (Array Int Int))"
	SArr2B = "(Array Int (Array Int Bool))"
)

type Term struct {
	op   string // "const" (named), "int", "bool", or SMT operator
	name string // for const
	ival *big.Int
	bval bool
	args []*Term
	sort string
	str  string // cached rendering
	pats []*Term // quantifier patterns (forall only)
}

var (
	tTrue  = &Term{op: "bool", bval: true, sort: SBool}
	tFalse = &Term{op: "bool", bval: false, sort: SBool}
)

func mkInt(n int64) *Term { return &Term{op: "int", ival: big.NewInt(n), sort: SInt} }
func mkBig(n *big.Int) *Term {
	return &Term{op: "int", ival: new(big.Int).Set(n), sort: SInt}
}
func mkBool(b bool) *Term {
	if b {
		return tTrue
	}
	return tFalse
}
func mkConst(name, sort string) *Term { return &Term{op: "const", name: name, sort: sort} }
func mkApp(op, sort string, args ...*Term) *Term {
	return &Term{op: op, sort: sort, args: args}
}

func (t *Term) isInt() bool   { return t.op == "int" }
func (t *Term) isTrue() bool  { return t.op == "bool" && t.bval }
func (t *Term) isFalse() bool { return t.op == "bool" && !t.bval }

func (t *Term) String() string {
	if t.str != "" {
		return t.str
	}
	var s string
	switch t.op {
	case "const":
		s = t.name
	case "int":
		if t.ival.Sign() < 0 {
			s = "(- " + new(big.Int).Neg(t.ival).String() + ")"
		} else {
			s = t.ival.String()
		}
	case "bool":
		if t.bval {
			s = "true"
		} else {
			s = "false"
		}
	case "lambda":
		s = fmt.Sprintf("(lambda ((%s %s)) %s)", t.args[0].name, t.args[0].sort, t.args[1].String())
	case "forall", "exists":
		// args[0..n-2] bound consts, args[n-1] body
		var b strings.Builder
		b.WriteString("(" + t.op + " (")
		for _, v := range t.args[:len(t.args)-1] {
			fmt.Fprintf(&b, "(%s %s)", v.name, v.sort)
		}
		b.WriteString(") ")
		if len(t.pats) > 0 {
			b.WriteString("(! ")
			b.WriteString(t.args[len(t.args)-1].String())
			b.WriteString(" :pattern (")
			for i, p := range t.pats {
				if i > 0 {
					b.WriteString(" ")
				}
				b.WriteString(p.String())
			}
			b.WriteString("))")
		} else {
			b.WriteString(t.args[len(t.args)-1].String())
		}
		b.WriteString(")")
		s = b.String()
	default:
		var b strings.Builder
		b.WriteString("(" + t.op)
		for _, a := range t.args {
			b.WriteString(" ")
			b.WriteString(a.String())
		}
		b.WriteString(")")
		s = b.String()
	}
	t.str = s
	return s
}

func same(a, b *Term) bool {
	if a == b {
		return true
	}
	return a.String() == b.String()
}

func tNot(a *Term) *Term {
	if a.isTrue() {
		return tFalse
	}
	if a.isFalse() {
		return tTrue
	}
	if a.op == "not" {
		return a.args[0]
	}
	return mkApp("not", SBool, a)
}

func tAnd(xs ...*Term) *Term {
	var out []*Term
	for _, x := range xs {
		if x == nil || x.isTrue() {
			continue
		}
		if x.isFalse() {
			return tFalse
		}
		if x.op == "and" {
			out = append(out, x.args...)
		} else {
			out = append(out, x)
		}
	}
	if len(out) == 0 {
		return tTrue
	}
	if len(out) == 1 {
		return out[0]
	}
	return mkApp("and", SBool, out...)
}

func tOr(xs ...*Term) *Term {
	var out []*Term
	for _, x := range xs {
		if x == nil || x.isFalse() {
			continue
		}
		if x.isTrue() {
			return tTrue
		}
		if x.op == "or" {
			out = append(out, x.args...)
		} else {
			out = append(out, x)
		}
	}
	if len(out) == 0 {
		return tFalse
	}
	if len(out) == 1 {
		return out[0]
	}
	return mkApp("or", SBool, out...)
}

func tImp(a, b *Term) *Term {
	if a.isTrue() {
		return b
	}
	if a.isFalse() || b.isTrue() {
		return tTrue
	}
	if b.isFalse() {
		return tNot(a)
	}
	return mkApp("=>", SBool, a, b)
}

func tIte(c, a, b *Term) *Term {
	if c.isTrue() {
		return a
	}
	if c.isFalse() {
		return b
	}
	if same(a, b) {
		return a
	}
	if a.sort == SBool {
		if a.isTrue() && b.isFalse() {
			return c
		}
		if a.isFalse() && b.isTrue() {
			return tNot(c)
		}
	}
	return mkApp("ite", a.sort, c, a, b)
}

func tEq(a, b *Term) *Term {
	if a.sort != b.sort {
		panic(fmt.Sprintf("tEq sort mismatch %s:%s vs %s:%s", a, a.sort, b, b.sort))
	}
	if same(a, b) {
		return tTrue
	}
	if a.isInt() && b.isInt() {
		return mkBool(a.ival.Cmp(b.ival) == 0)
	}
	if a.op == "bool" && b.op == "bool" {
		return mkBool(a.bval == b.bval)
	}
	if a.sort == SBool {
		if b.isTrue() {
			return a
		}
		if b.isFalse() {
			return tNot(a)
		}
		if a.isTrue() {
			return b
		}
		if a.isFalse() {
			return tNot(b)
		}
	}
	return mkApp("=", SBool, a, b)
}

func tNe(a, b *Term) *Term { return tNot(tEq(a, b)) }

func tCmp(op string, a, b *Term) *Term {
	if a.isInt() && b.isInt() {
		c := a.ival.Cmp(b.ival)
		switch op {
		case "<":
			return mkBool(c < 0)
		case "<=":
			return mkBool(c <= 0)
		case ">":
			return mkBool(c > 0)
		case ">=":
			return mkBool(c >= 0)
		}
	}
	return mkApp(op, SBool, a, b)
}
func tLt(a, b *Term) *Term { return tCmp("<", a, b) }
func tLe(a, b *Term) *Term { return tCmp("<=", a, b) }
func tGt(a, b *Term) *Term { return tCmp(">", a, b) }
func tGe(a, b *Term) *Term { return tCmp(">=", a, b) }

func tAdd(a, b *Term) *Term {
	if a.isInt() && b.isInt() {
		return mkBig(new(big.Int).Add(a.ival, b.ival))
	}
	if a.isInt() && a.ival.Sign() == 0 {
		return b
	}
	if b.isInt() && b.ival.Sign() == 0 {
		return a
	}
	// (x + c1) + c2
	if b.isInt() && a.op == "+" && len(a.args) == 2 && a.args[1].isInt() {
		return tAdd(a.args[0], mkBig(new(big.Int).Add(a.args[1].ival, b.ival)))
	}
	return mkApp("+", SInt, a, b)
}
func tSub(a, b *Term) *Term {
	if b.isInt() {
		return tAdd(a, mkBig(new(big.Int).Neg(b.ival)))
	}
	if same(a, b) {
		return mkInt(0)
	}
	return mkApp("-", SInt, a, b)
}
func tMul(a, b *Term) *Term {
	if a.isInt() && b.isInt() {
		return mkBig(new(big.Int).Mul(a.ival, b.ival))
	}
	if a.isInt() && a.ival.Cmp(big.NewInt(1)) == 0 {
		return b
	}
	if b.isInt() && b.ival.Cmp(big.NewInt(1)) == 0 {
		return a
	}
	return mkApp("*", SInt, a, b)
}
func tNeg(a *Term) *Term { return tSub(mkInt(0), a) }

func elemSort(arr string) string {
	// "(Array Int X)" -> X
	if !strings.HasPrefix(arr, "(Array Int ") {
		panic("not an array sort: " + arr)
	}
	return arr[len("(Array Int ") : len(arr)-1]
}
func arrSort(elem string) string { return "(Array Int " + elem + ")" }

func tSelect(a, i *Term) *Term {
	// select over store with syntactically equal / distinct-constant index
	for a.op == "store" {
		if same(a.args[1], i) {
			return a.args[2]
		}
		if a.args[1].isInt() && i.isInt() {
			a = a.args[0]
			continue
		}
		break
	}
	return mkApp("select", elemSort(a.sort), a, i)
}
func tStore(a, i, v *Term) *Term {
	if v.sort != elemSort(a.sort) {
		panic(fmt.Sprintf("tStore sort mismatch: array %s value %s:%s", a.sort, v, v.sort))
	}
	return mkApp("store", a.sort, a, i, v)
}

func tForall(vars []*Term, body *Term) *Term {
	if body.isTrue() {
		return tTrue
	}
	if len(vars) == 0 {
		return body
	}
	args := append(append([]*Term{}, vars...), body)
	return mkApp("forall", SBool, args...)
}
func tForallPat(vars []*Term, body *Term, pats ...*Term) *Term {
	t := tForall(vars, body)
	if t.op == "forall" {
		t.pats = pats
	}
	return t
}
// tLambda builds an array comprehension (z3 extension): (lambda ((v Int)) body).
func tLambda(v *Term, body *Term, sort string) *Term {
	return &Term{op: "lambda", args: []*Term{v, body}, sort: sort}
}

func tExists(vars []*Term, body *Term) *Term {
	if body.isFalse() {
		return tFalse
	}
	if len(vars) == 0 {
		return body
	}
	args := append(append([]*Term{}, vars...), body)
	return mkApp("exists", SBool, args...)
}

// collectConsts gathers the named constants occurring free in t.
func collectConsts(t *Term, seen map[*Term]bool, out map[string]string) {
	if seen[t] {
		return
	}
	seen[t] = true
	switch t.op {
	case "const":
		out[t.name] = t.sort
	case "lambda":
		inner := map[string]string{}
		collectConsts(t.args[1], map[*Term]bool{}, inner)
		delete(inner, t.args[0].name)
		for k, v := range inner {
			out[k] = v
		}
	case "forall", "exists":
		inner := map[string]string{}
		collectConsts(t.args[len(t.args)-1], map[*Term]bool{}, inner)
		for _, v := range t.args[:len(t.args)-1] {
			delete(inner, v.name)
		}
		for k, v := range inner {
			out[k] = v
		}
	default:
		for _, a := range t.args {
			collectConsts(a, seen, out)
		}
	}
}

func sortedKeys[V any](m map[string]V) []string {
	ks := make([]string, 0, len(m))
	for k := range m {
		ks = append(ks, k)
	}
	sort.Strings(ks)
	return ks
}

// substitute named constants (used for binding quantifier variables / macro params)
func subst(t *Term, m map[string]*Term) *Term {
	if len(m) == 0 {
		return t
	}
	switch t.op {
	case "const":
		if r, ok := m[t.name]; ok {
			return r
		}
		return t
	case "int", "bool":
		return t
	}
	changed := false
	na := make([]*Term, len(t.args))
	for i, a := range t.args {
		na[i] = subst(a, m)
		if na[i] != a {
			changed = true
		}
	}
	if !changed {
		return t
	}
	var np []*Term
	for _, p := range t.pats {
		np = append(np, subst(p, m))
	}
	return &Term{op: t.op, sort: t.sort, args: na, pats: np}
}
