package main

import (
	"golang.org/x/tools/go/ssa"
	"flag"
	"fmt"
	"os"
	"strings"
)

func usage() {
	fmt.Fprintln(os.Stderr, `usage:
  vc check --property Cxx [--tier quick|thorough]
  vc fn <pkg-suffix> <funcKey>...        (debug: verify single functions)
  vc replay <file>`)
	os.Exit(2)
}

func main() {
	if len(os.Args) < 2 {
		usage()
	}
	switch os.Args[1] {
	case "check":
		fs := flag.NewFlagSet("check", flag.ExitOnError)
		prop := fs.String("property", "", "property id")
		tier := fs.String("tier", "quick", "quick|thorough")
		fs.Parse(os.Args[2:])
		if t := os.Getenv("VERIF_TIER"); t != "" && *tier == "" {
			*tier = t
		}
		os.Exit(runCheck(*prop, *tier))
	case "fn":
		os.Exit(debugFn(os.Args[2], os.Args[3:]))
	case "frame":
		os.Exit(debugFrame(os.Args[2], os.Args[3:]))
	case "trace":
		os.Exit(debugTrace(os.Args[2], os.Args[3:]))
	case "helpers":
		os.Exit(debugHelpers(os.Args[2], os.Args[3], os.Args[4:]))
	case "wk":
		os.Exit(debugWK(os.Args[2], os.Args[3]))
	case "gramcheck":
		os.Exit(debugGramCheck(os.Args[2], os.Args[3:]))
	case "gramnt":
		os.Exit(debugGramNT(os.Args[2], os.Args[3:]))
	case "gramrule":
		os.Exit(debugGramRule(os.Args[2], os.Args[3:]))
	case "gramdump":
		os.Exit(debugGramDump(os.Args[2], os.Args[3:]))
	case "scan":
		os.Exit(debugScan(os.Args[2:]))
	case "drv":
		os.Exit(debugDrv(os.Args[2:]))
	case "drvprobe":
		os.Exit(debugDrvProbe(os.Args[2:]))
	case "scanprobe":
		os.Exit(debugScanProbe(os.Args[2:]))
	case "replay":
		os.Exit(runReplay(os.Args[2:]))
	default:
		usage()
	}
}

func debugFn(pkgSuffix string, keys []string) int {
	w, err := loadWorld("./...")
	if err != nil {
		fmt.Fprintln(os.Stderr, err)
		return 2
	}
	w.registerKeySorts()
	rc := 0
	for path := range w.SSAPkgs {
		if !strings.HasSuffix(path, pkgSuffix) || !strings.HasPrefix(path, modPath) {
			continue
		}
		for _, key := range keys {
			fn := w.lookupFunc(path, key)
			if fn == nil {
				fmt.Printf("no function %s in %s\n", key, path)
				rc = 2
				continue
			}
			con := w.contractFor(fn)
			rep := verifyFunction(w, fn, con, []string{"dbg"})
			if rep.OutOfSub != "" {
				fmt.Printf("%s: OUT OF SUBSET: %s\n", rep.Name, rep.OutOfSub)
				rc = 1
				continue
			}
			t := rep.Script.Solve(SolveOpts{TimeoutMs: 5000, Primary: "z3-new", Fallbacks: []string{"z3", "cvc5"}})
			fmt.Printf("%s: %d obligations, %.2fs\n", rep.Name, len(rep.Script.Obls), t)
			for _, o := range rep.Script.Obls {
				ok := o.Status == "unsat"
				if o.ExpectFail {
					ok = o.Status != "unsat"
				}
				mark := "ok  "
				if !ok {
					mark = "FAIL"
					rc = 1
				}
				fmt.Printf("  %s %-8s %s [%s %s]\n", mark, o.Status, o.Name, o.Solver, o.Site)
				if !ok && len(o.Model) > 0 {
					fmt.Printf("       model: %v\n", o.Model)
				}
			}
			for _, a := range rep.Assumed {
				fmt.Printf("  assumed: %s\n", a)
			}
		}
	}
	return rc
}

func debugWK(pkgSuffix, key string) int {
	w, err := loadWorld("./...")
	if err != nil {
		fmt.Fprintln(os.Stderr, err)
		return 2
	}
	for path := range w.SSAPkgs {
		if !strings.HasSuffix(path, pkgSuffix) || !strings.HasPrefix(path, modPath) {
			continue
		}
		fn := w.lookupFunc(path, key)
		if fn == nil {
			continue
		}
		for _, k := range sortedKeys(w.writeKeys(fn)) {
			fmt.Println(k)
		}
	}
	return 0
}

func debugFrame(pkgSuffix string, keys []string) int {
	w, err := loadWorld("./...")
	if err != nil {
		fmt.Fprintln(os.Stderr, err)
		return 2
	}
	var roots []*ssa.Function
	for path := range w.SSAPkgs {
		if !strings.HasSuffix(path, pkgSuffix) || !strings.HasPrefix(path, modPath) {
			continue
		}
		for _, k := range keys {
			if strings.HasSuffix(k, ".*") {
				roots = append(roots, w.methodsOf(path, strings.TrimSuffix(k, ".*"))...)
				continue
			}
			if fn := w.lookupFunc(path, k); fn != nil {
				roots = append(roots, fn)
			}
		}
	}
	a := newFrameAn(w, roots)
	a.run()
	fmt.Printf("roots=%d nodes=%d writes=%d reads=%d\n", len(roots), len(a.order), len(a.Writes), len(a.Reads))
	seen := map[string]bool{}
	for _, wr := range a.Writes {
		if wr.Fresh {
			continue
		}
		l := fmt.Sprintf("NONFRESH %s %s in %s at %s: %s", wr.What, wr.Key, wr.Fn, wr.Site, wr.Expr)
		if !seen[l] {
			seen[l] = true
			fmt.Println(l)
		}
	}
	for _, u := range a.Unmodelled {
		fmt.Println("UNMODELLED", u)
	}
	for _, e := range sortedKeys(a.External) {
		fmt.Println("EXTERNAL", e)
	}
	return 0
}

func debugTrace(pkgSuffix string, keys []string) int {
	w, err := loadWorld("./...")
	if err != nil {
		fmt.Fprintln(os.Stderr, err)
		return 2
	}
	for path := range w.SSAPkgs {
		if !strings.HasSuffix(path, pkgSuffix) || !strings.HasPrefix(path, modPath) {
			continue
		}
		for _, k := range keys {
			fn := w.lookupFunc(path, k)
			if fn == nil {
				continue
			}
			paths, err := traceFunction(w, fn, w.pureHelper)
			if err != nil {
				fmt.Println(k, "ERROR", err)
				continue
			}
			fmt.Printf("%s: %d paths\n", k, len(paths))
			for _, p := range paths {
				fmt.Printf("  [%s]\n    %s\n", p.condString(), renderEvents(p.Events))
				if len(p.Ret) > 0 {
					fmt.Printf("    ret %v\n", p.Ret)
				}
			}
		}
	}
	return 0
}

func debugHelpers(pkgSuffix, recv string, names []string) int {
	w, err := loadWorld("./...")
	if err != nil {
		fmt.Fprintln(os.Stderr, err)
		return 2
	}
	f := loadFamily(w, modPath+"/"+pkgSuffix, recv)
	for _, n := range names {
		r, e := f.helperRendering(n)
		fmt.Printf("//@ trace helper %s := %s\n", n, r)
		if e != "" {
			fmt.Println("ERROR", e)
		}
	}
	return 0
}
