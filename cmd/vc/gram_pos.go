package main

// E-GRAM, part 5: position obligations, discharged by SMT.
//
// For every node the action creates or completes (writes a yield-contributing slot of), if its
// Position is non-nil after the action then
//     Position.StartPos == start(first present atom of the node's yield)
//     Position.EndPos   == end(last present atom of the node's yield)
// "Present" is a boolean term (optional tokens, possibly empty lists), starts and ends are
// uninterpreted integer constants per object (the induction hypothesis for untouched children is
// that their own Position is the span of their own yield). The actual value is the builder call's
// semantics, read off the trace of the real builder function; the four helper functions
// (get{Node,List}{Start,End}Pos) are covered by E-VC contracts in internal/position.

import (
	"fmt"
	"go/types"
	"strings"
)

type posEnc struct {
	g      *gramCtx
	r      *gRun
	sc     *Script
	pfx    string
	facts  []*Term
	errs   []string
	depth  int
	asOf   map[*gObj][]gv
}

func (e *posEnc) ic(kind string, o *gObj) *Term {
	return e.sc.Declare(fmt.Sprintf("%s_%s_%d", e.pfx, kind, o.ID), SInt)
}
func (e *posEnc) bc(kind string, o *gObj) *Term {
	return e.sc.Declare(fmt.Sprintf("%s_%s_%d", e.pfx, kind, o.ID), SBool)
}

// isNilT: term "the reference is nil"
func (e *posEnc) isNilT(o *gObj) *Term {
	if !o.MaybeNil {
		return tFalse
	}
	if d, ok := e.r.facts[fmt.Sprintf("nil:%d", o.ID)]; ok {
		return mkBool(d)
	}
	if o.Alt != nil {
		return mkBool(o.Alt.Nil)
	}
	return e.bc("isnil", o)
}

type span struct {
	Present *Term
	S, E    *Term
	// provenance of the end/start (for the empty-statement-list convention)
}

var minus1 = mkInt(-1)

// nodeSpan: the Position a node carries after the action, as (hasPosition, start, end)
func (e *posEnc) nodePos(v gv) (has, s, en *Term) {
	e.depth++
	defer func() { e.depth-- }()
	if e.depth > 10 {
		e.errs = append(e.errs, "position terms nest too deeply")
		return tFalse, minus1, minus1
	}
	switch x := v.(type) {
	case gNil:
		return tFalse, minus1, minus1
	case gRef:
		o := x.Obj
		if o.Kind != "node" {
			e.errs = append(e.errs, "position of non-node "+o.Origin)
			return tFalse, minus1, minus1
		}
		notNil := tNot(e.isNilT(o))
		pv, ok := o.Fields["Position"]
		if st := e.asOf[o]; len(st) > 0 {
			pv, ok = st[len(st)-1], st[len(st)-1] != nil
		}
		if ok {
			h, s1, e1 := e.posVal(pv)
			return tAnd(notNil, h), s1, e1
		}
		if !o.Input {
			return tFalse, minus1, minus1 // created here, Position never assigned: nil
		}
		if o.Alt != nil && !o.Alt.Any && o.Alt.NilF["Position"] {
			return tFalse, minus1, minus1 // half-built carrier: its contract says Position is still nil
		}
		// input node, Position untouched: its own (induction hypothesis)
		var hp *Term
		if e.r.posSetOf(o) {
			hp = tTrue
		} else if o.Parent != nil && o.Parent.Kind == "node" && o.PField != "" {
			// a child stored in a slot of a node: carries a position (child-has-position is checked
			// wherever a child is stored)
			hp = tTrue
		} else {
			hp = e.bc("haspos", o)
		}
		return tAnd(notNil, hp), e.ic("ns", o), e.ic("ne", o)
	case gStale:
		e.errs = append(e.errs, x.Why)
	default:
		e.errs = append(e.errs, "position of "+describeG(v))
	}
	return tFalse, minus1, minus1
}

// posVal: value of a *position.Position expression
func (e *posEnc) posVal(v gv) (has, s, en *Term) {
	switch x := v.(type) {
	case gNil:
		return tFalse, minus1, minus1
	case gRef:
		o := x.Obj
		if o.Kind != "pos" {
			e.errs = append(e.errs, "Position slot holds "+o.Origin)
			return tFalse, minus1, minus1
		}
		if o.Content != nil {
			switch cv := o.Content.(type) {
			case *gPosV:
				s1, e1 := e.builder(cv)
				return tTrue, s1, e1
			case gRef:
				_, s1, e1 := e.posVal(cv)
				return tNot(e.isNilT(o)), s1, e1
			}
		}
		// an old position object: the position of its owner
		if o.Parent != nil && o.PField == "Position" {
			p := o.Parent
			if p.Kind == "token" {
				return tTrue, e.ic("ts", p), e.ic("te", p)
			}
			return tNot(e.isNilT(o)), e.ic("ns", p), e.ic("ne", p)
		}
		e.errs = append(e.errs, "position object of unknown origin "+o.Origin)
	default:
		e.errs = append(e.errs, "Position slot holds "+describeG(v))
	}
	return tFalse, minus1, minus1
}

func (e *posEnc) tokSE(v gv) (s, en *Term) {
	if x, ok := v.(gRef); ok && x.Obj.Kind == "token" {
		if n := e.isNilT(x.Obj); !n.isFalse() {
			e.errs = append(e.errs, "builder dereferences token "+x.Obj.Origin+" which may be nil")
		}
		return e.ic("ts", x.Obj), e.ic("te", x.Obj)
	}
	e.errs = append(e.errs, "builder token argument is "+describeG(v))
	return minus1, minus1
}

// getNodeStartPos / getNodeEndPos semantics (E-VC contracts in internal/position)
func (e *posEnc) nodeSE(v gv) (s, en *Term) {
	has, s1, e1 := e.nodePos(v)
	return tIte(has, s1, minus1), tIte(has, e1, minus1)
}

// listEmptyT: term "the list has no element"
func (e *posEnc) listParts(v gv) (baseEmpty *Term, base *gObj, app []gv, ok bool) {
	switch x := v.(type) {
	case gNil:
		return tTrue, nil, nil, true
	case *gList:
		if x.Base == nil {
			return tTrue, nil, x.App, true
		}
		b := x.Base
		if d, okf := e.r.facts[fmt.Sprintf("lempty:%d", b.ID)]; okf {
			if d {
				return tTrue, nil, x.App, true
			}
			return tFalse, b, x.App, true
		}
		if d, okf := e.r.facts[fmt.Sprintf("lnil:%d", b.ID)]; okf && d {
			return tTrue, nil, x.App, true
		} else if okf && !d && !b.LEmpty {
			return tFalse, b, x.App, true // not nil, and the contract excludes "empty but not nil"
		}
		switch {
		case !b.LNonEmpty:
			return tTrue, b, x.App, true
		case !b.LNil && !b.LEmpty:
			return tFalse, b, x.App, true
		}
		return e.bc("lempty", b), b, x.App, true
	case gStale:
		e.errs = append(e.errs, x.Why)
	}
	return tTrue, nil, nil, false
}

// getListStartPos / getListEndPos semantics
func (e *posEnc) listSE(v gv) (s, en *Term) {
	be, b, app, ok := e.listParts(v)
	if !ok {
		e.errs = append(e.errs, "builder list argument is "+describeG(v))
		return minus1, minus1
	}
	// start: first element
	var firstApp, lastApp *Term
	if len(app) > 0 {
		firstApp, _ = e.nodeSE(app[0])
		_, lastApp = e.nodeSE(app[len(app)-1])
	} else {
		firstApp, lastApp = minus1, minus1
	}
	var pre []gv
	if l, isL := v.(*gList); isL {
		pre = l.Pre
	}
	if b == nil {
		s, en = firstApp, lastApp
	} else {
		bs, ben := e.listBaseSE(b)
		s = tIte(be, firstApp, bs)
		if len(app) > 0 {
			en = lastApp
		} else {
			en = tIte(be, minus1, ben)
		}
	}
	if len(pre) > 0 {
		ps, _ := e.nodeSE(pre[0])
		_, pe := e.nodeSE(pre[len(pre)-1])
		s = ps
		if len(app) == 0 {
			if b == nil {
				en = pe
			} else {
				_, ben := e.listBaseSE(b)
				en = tIte(be, pe, ben)
			}
		}
	}
	return s, en
}

// first-start / last-end of an opaque list: the positions of its first and last element (which
// may themselves lack a position → -1, when the contract of the list does not give ElemsPos)
func (e *posEnc) listBaseSE(b *gObj) (s, en *Term) {
	s, en = e.ic("lfs", b), e.ic("lle", b)
	if !b.ElemsPos || !b.ElemsNonNil {
		s = tIte(e.bc("lfhas", b), s, minus1)
		en = tIte(e.bc("llhas", b), en, minus1)
	}
	return
}

func (e *posEnc) builder(p *gPosV) (s, en *Term) {
	bs := e.g.Builder[p.Fn]
	if bs == nil || bs.Err != "" || len(bs.Paths) == 0 {
		e.errs = append(e.errs, "no semantics for builder "+p.Fn)
		return minus1, minus1
	}
	get := func(src posSrc) *Term {
		if src.Param < 0 || src.Param >= len(p.Args) {
			e.errs = append(e.errs, "builder parameter out of range")
			return minus1
		}
		a := p.Args[src.Param]
		var s1, e1 *Term
		switch src.Kind {
		case "tok":
			s1, e1 = e.tokSE(a)
		case "node":
			if rf, ok := a.(gRef); ok && rf.Obj.Kind == "node" && src.Param < len(p.ArgPos) {
				// the Position the argument carried when the builder was called
				e.asOf[rf.Obj] = append(e.asOf[rf.Obj], p.ArgPos[src.Param])
				s1, e1 = e.nodeSE(a)
				e.asOf[rf.Obj] = e.asOf[rf.Obj][:len(e.asOf[rf.Obj])-1]
			} else {
				s1, e1 = e.nodeSE(a)
			}
		case "list":
			s1, e1 = e.listSE(a)
		}
		if src.Side == "start" {
			return s1
		}
		return e1
	}
	var sAcc, eAcc *Term
	for i := len(bs.Paths) - 1; i >= 0; i-- {
		bp := bs.Paths[i]
		cond := tTrue
		for _, c := range bp.Conds {
			var pi int
			var op string
			fmt.Sscanf(c, "%d%s", &pi, &op)
			isNil := e.sliceNilT(p.Args[pi])
			if op == "==nil" {
				cond = tAnd(cond, isNil)
			} else {
				cond = tAnd(cond, tNot(isNil))
			}
		}
		ps, pe := get(bp.Fields["StartPos"]), get(bp.Fields["EndPos"])
		if sAcc == nil {
			sAcc, eAcc = ps, pe
		} else {
			sAcc, eAcc = tIte(cond, ps, sAcc), tIte(cond, pe, eAcc)
		}
	}
	return sAcc, eAcc
}

func (e *posEnc) sliceNilT(v gv) *Term {
	switch x := v.(type) {
	case gNil:
		return tTrue
	case *gList:
		if x.NonNil || len(x.App) > 0 {
			return tFalse
		}
		if x.Base == nil {
			return tTrue
		}
		b := x.Base
		if d, ok := e.r.facts[fmt.Sprintf("lnil:%d", b.ID)]; ok {
			return mkBool(d)
		}
		if !b.LNil {
			return tFalse
		}
		if !b.LEmpty && !b.LNonEmpty {
			return tTrue
		}
		n := e.bc("lisnil", b)
		// a nil slice is empty; when the contract excludes "empty but not nil", the converse holds too
		e.facts = append(e.facts, tImp(n, e.bc("lempty", b)))
		if !b.LEmpty {
			e.facts = append(e.facts, tImp(tNot(n), tNot(e.bc("lempty", b))))
		}
		return n
	case gRef:
		return e.isNilT(x.Obj)
	}
	return tFalse
}

// atomSpan: presence/start/end of a yield atom
func (e *posEnc) atomSpan(a yAtom) span {
	switch a.Kind {
	case "tok":
		return span{tTrue, e.ic("ts", a.Obj), e.ic("te", a.Obj)}
	case "tokopt":
		return span{tNot(e.isNilT(a.Obj)), e.ic("ts", a.Obj), e.ic("te", a.Obj)}
	case "node", "nodeopt":
		has, s, en := e.nodePos(gRef{a.Obj})
		return span{has, s, en}
	case "list":
		be, _, _, _ := e.listParts(&gList{Base: a.Obj})
		s, en := e.listBaseSE(a.Obj)
		return span{tNot(be), s, en}
	case "ilb":
		be, _, _, _ := e.listParts(&gList{Base: a.Obj})
		s, en := e.listBaseSE(a.Obj)
		if a.Rel == "eq" {
			en = e.ic("lle", a.Obj2) // the trailing separator token ends the base
		}
		return span{tNot(be), s, en}
	}
	e.errs = append(e.errs, "unspannable atom "+a.String())
	return span{tFalse, minus1, minus1}
}

func goalInputs(t *Term) []*Term {
	cs := map[string]string{}
	collectConsts(t, map[*Term]bool{}, cs)
	var out []*Term
	for _, k := range sortedKeys(cs) {
		if len(out) >= 48 {
			break
		}
		out = append(out, mkConst(k, cs[k]))
	}
	return out
}

func (g *gramCtx) posConvention(gp *gramParser, typ string) (excl map[string]bool) {
	excl = map[string]bool{}
	if cf := g.W.CFiles[gp.Pkg]; cf != nil {
		for _, d := range cf.Directives {
			// gram span-excludes ast.Root EndTkn : reason
			word, rest := splitWord(d)
			if word != "gram" {
				continue
			}
			w2, r2 := splitWord(rest)
			if w2 != "span-excludes" {
				continue
			}
			tn, r3 := splitWord(r2)
			f, _ := splitWord(r3)
			if strings.HasSuffix(typ, "."+strings.TrimPrefix(tn, "ast.")) || typ == tn {
				excl[f] = true
			}
		}
	}
	return
}

func (g *gramCtx) gramFlag(gp *gramParser, flag string) []string {
	var out []string
	if cf := g.W.CFiles[gp.Pkg]; cf != nil {
		for _, d := range cf.Directives {
			word, rest := splitWord(d)
			if word != "gram" {
				continue
			}
			w2, r2 := splitWord(rest)
			if w2 == flag {
				if i := strings.Index(r2, ":"); i >= 0 {
					r2 = r2[:i]
				}
				out = append(out, strings.Fields(r2)...)
			}
		}
	}
	return out
}

// posObligations emits the SMT obligations for every node created or completed on this path.
func (g *gramCtx) posObligations(c *CheckCtx, gp *gramParser, rule *yRule, r *gRun, out gv, kind string, pi int, pd string, sc *Script) {
	stmtLists := map[string]bool{}
	for _, s := range g.gramFlag(gp, "stmt-list-slots") {
		stmtLists[s] = true
	}
	provEnd := map[string]bool{}
	for _, s := range g.gramFlag(gp, "provisional-end") {
		provEnd[s] = true
	}
	provStart := map[string]bool{}
	for _, s := range g.gramFlag(gp, "provisional-start") {
		provStart[s] = true
	}
	emptySlotTypes := map[string]bool{}
	for _, s := range g.gramFlag(gp, "empty-slot-types") {
		emptySlotTypes[s] = true
	}
	// reachable created/completed nodes
	reach := map[*gObj]bool{}
	var order []*gObj
	var walk func(v gv)
	walk = func(v gv) {
		switch x := v.(type) {
		case gRef:
			o := x.Obj
			if o.Kind != "node" || reach[o] || o.T == nil || (o.Input && !o.Opened) {
				return
			}
			reach[o] = true
			order = append(order, o)
			st, _ := o.T.Underlying().(*types.Struct)
			for i := 0; st != nil && i < st.NumFields(); i++ {
				if w, ok := o.Fields[st.Field(i).Name()]; ok {
					walk(w)
				}
			}
		case *gList:
			for _, e := range x.Pre {
				walk(e)
			}
			for _, e := range x.App {
				walk(e)
			}
		}
	}
	walk(out)
	for _, o := range order {
		tn := typeName(o.T)
		lay, ok := g.Layout[tn]
		if !ok {
			continue
		}
		// completed = some yield slot or Position written here
		wrote := !o.Input
		for _, it := range lay {
			if _, w := o.Fields[it.Slot]; w {
				wrote = true
			}
			if it.Sep != "" {
				if _, w := o.Fields[it.Sep]; w {
					wrote = true
				}
			}
		}
		if _, w := o.Fields["Position"]; w {
			wrote = true
		}
		if !wrote {
			continue
		}
		pfx := fmt.Sprintf("%s_r%d_p%d_o%d", gp.Name, rule.Num, pi, o.ID)
		enc := &posEnc{g: g, r: r, sc: sc, pfx: fmt.Sprintf("%s_r%d_p%d", gp.Name, rule.Num, pi), asOf: map[*gObj][]gv{}}
		_ = pfx
		hasPos, as, ae := enc.nodePos(gRef{o})
		// P2: children stored into real ast slots must carry a position
		{
			for _, it := range lay {
				if it.Kind != "node" {
					continue
				}
				w, written := o.Fields[it.Slot]
				if !written {
					continue
				}
				if rf, ok := w.(gRef); ok && rf.Obj.Kind == "node" {
					ch := rf.Obj
					if ch.T != nil && emptySlotTypes[ch.T.Obj().Name()] {
						continue
					}
					h, _, _ := enc.nodePos(w)
					name := g.obName(gp, rule, "pos", fmt.Sprintf("child-has-position:%s.%s", o.T.Obj().Name(), it.Slot))
					if len(pd) > 0 {
						name += " [" + pd + "]"
					}
					goal := tImp(tAnd(enc.facts...), tImp(tNot(enc.isNilT(ch)), h))
					sc.AddObligation(&Obligation{Name: name, Class: "pos", Props: []string{c.Prop}, Goal: goal, Site: ruleSite(gp, rule), Note: "every node stored into a child slot of a finished node carries a Position"})
				}
			}
		}
		if hasPos.isFalse() {
			continue // half-built carrier without a position: nothing to check yet (P2 covers its use)
		}
		// induction hypothesis for the input nodes this action opened: the Position they arrived
		// with is the span of the yield they arrived with
		for _, io := range r.objs {
			if !io.Input || !io.Opened || io.Kind != "node" || io.T == nil || io.Alt == nil || io.Alt.Any || !io.Alt.PosSet {
				continue
			}
			ilay, ok := g.Layout[typeName(io.T)]
			if !ok {
				continue
			}
			sub := &posEnc{g: g, r: r, sc: sc, pfx: enc.pfx, asOf: map[*gObj][]gv{}}
			es0, ee0, stmtEnd, _ := g.expectedSpan(gp, sub, io, ilay, false, stmtLists)
			if len(sub.errs) > 0 {
				continue
			}
			endEq := tEq(enc.ic("ne", io), ee0)
			if stmtEnd {
				endEq = tOr(endEq, tEq(enc.ic("ne", io), minus1))
			}
			if io.Dollar > 0 && provEnd[rule.RHS[io.Dollar-1]] {
				endEq = tTrue // the end of this carrier's Position is not final yet (named in the contract file)
			}
			startEq := tEq(enc.ic("ns", io), es0)
			if io.ListElemOf > 0 && provStart[rule.RHS[io.ListElemOf-1]] {
				startEq = tTrue // partial chain node: the start is provisional (named in the contract file)
			}
			enc.facts = append(enc.facts, startEq, endEq)
			enc.facts = append(enc.facts, sub.facts...)
		}
		es, ee, endIsStmtList, descr := g.expectedSpan(gp, enc, o, lay, true, stmtLists)
		if false {
		// expected span from the yield, minus the documented exclusions
		excl := g.posConvention(gp, tn)
		y := &yielder{g: g, r: r, post: true, seen: map[*gObj]int{}}
		var spans []span
		var descr []string
		endIsStmtList := false
		for li, it := range lay {
			if excl[it.Slot] {
				continue
			}
			var atoms []yAtom
			switch it.Kind {
			case "tok":
				atoms = y.ofToken(y.fieldVal(o, it.Slot))
			case "node":
				v := y.fieldVal(o, it.Slot)
				// a child created/expanded here contributes its own position (checked separately)
				if rf, ok := v.(gRef); ok && rf.Obj.Kind == "node" {
					if n, known := y.nilKnown(rf.Obj); known && n {
						continue
					}
					h, s1, e1 := enc.nodePos(v)
					spans = append(spans, span{h, s1, e1})
					descr = append(descr, "node("+rf.Obj.Origin+")")
					continue
				}
				atoms = y.ofNode(v)
			case "list":
				v := y.fieldVal(o, it.Slot)
				if l, ok := v.(*gList); ok {
					be, b, app, _ := enc.listParts(l)
					if b != nil {
						s1, e1 := enc.listBaseSE(b)
						spans = append(spans, span{tNot(be), s1, e1})
						descr = append(descr, "list("+b.Origin+")")
					}
					for _, el := range app {
						h, s1, e1 := enc.nodePos(el)
						spans = append(spans, span{h, s1, e1})
						descr = append(descr, "node("+describeG(el)+")")
					}
					if stmtLists[o.T.Obj().Name()+"."+it.Slot] {
						last := true
						for _, it2 := range lay[li+1:] {
							if excl[it2.Slot] {
								continue
							}
							// later slots known nil on this path do not matter; conservative: any later non-excluded slot that is non-nil breaks "boundary"
							if v2 := y.fieldVal(o, it2.Slot); v2 != nil {
								if _, isNil := v2.(gNil); !isNil {
									last = false
								}
							}
						}
						if last {
							endIsStmtList = true
						}
					}
					continue
				}
				atoms = y.ofList(v)
			case "il":
				atoms = y.ofIL(y.fieldVal(o, it.Slot), y.fieldVal(o, it.Sep))
				// elements created here: use their positions
			}
			for _, a := range atoms {
				if a.Kind == "bad" {
					enc.errs = append(enc.errs, a.Note)
					continue
				}
				if (a.Kind == "node" || a.Kind == "nodeopt") && y.expanded(a.Obj) {
					h, s1, e1 := enc.nodePos(gRef{a.Obj})
					spans = append(spans, span{h, s1, e1})
				} else {
					spans = append(spans, enc.atomSpan(a))
				}
				descr = append(descr, a.String())
			}
		}
		_, _, _ = spans, descr, endIsStmtList
		}
		assume := tAnd(append([]*Term{hasPos}, enc.facts...)...)
		base := g.obName(gp, rule, "pos", "span:"+o.T.Obj().Name())
		if o.Input {
			base = g.obName(gp, rule, "pos", "span:"+o.Origin+".(*"+o.T.Obj().Name()+")")
		} else if o.NewIdx > 0 {
			base = g.obName(gp, rule, "pos", fmt.Sprintf("span:%s#%d", o.T.Obj().Name(), o.NewIdx))
		}
		if pd != "" {
			base += " [" + pd + "]"
		}
		note := "yield: " + strings.Join(descr, " · ")
		if len(enc.errs) > 0 {
			c.addOb(base+"/modelled", "pos", ruleSite(gp, rule), false, strings.Join(enc.errs, "; ")+"; "+note)
			continue
		}
		startGoal := tImp(assume, tEq(as, es))
		endOK := tEq(ae, ee)
		if endIsStmtList {
			endOK = tOr(endOK, tEq(ae, minus1))
		}
		endGoal := tImp(assume, endOK)
		skipStart := false
		if kind == "list" && provStart[rule.LHS] {
			if l, isL := out.(*gList); isL {
				for _, el := range append(append([]gv{}, l.Pre...), l.App...) {
					if rf, isRef := el.(gRef); isRef && rf.Obj == o {
						skipStart = true // element of a list of partial chain nodes
					}
				}
			}
		}
		if !skipStart {
			sc.AddObligation(&Obligation{Name: base + "/start", Class: "pos", Props: []string{c.Prop}, Goal: startGoal, Site: ruleSite(gp, rule), Note: note, Inputs: goalInputs(startGoal)})
		}
		if rf, isRef := out.(gRef); isRef && rf.Obj == o && provEnd[rule.LHS] {
			continue // provisional end: closed by the rule that consumes this carrier
		}
		sc.AddObligation(&Obligation{Name: base + "/end", Class: "pos", Props: []string{c.Prop}, Goal: endGoal, Site: ruleSite(gp, rule), Note: note, Inputs: goalInputs(endGoal)})
	}
}


// expectedSpan: first-start / last-end over the yield of o (post- or pre-state), minus the
// documented exclusions; stmtEnd reports that the end boundary is a statement-list slot (the
// -1 convention applies when that list is empty).
func (g *gramCtx) expectedSpan(gp *gramParser, enc *posEnc, o *gObj, lay []yItem, post bool, stmtLists map[string]bool) (es, ee *Term, stmtEnd bool, descr []string) {
	tn := typeName(o.T)
	excl := g.posConvention(gp, tn)
	y := &yielder{g: g, r: enc.r, post: post, seen: map[*gObj]int{}}
	var spans []span
	for li, it := range lay {
		if excl[it.Slot] {
			continue
		}
		var atoms []yAtom
		switch it.Kind {
		case "tok":
			atoms = y.ofToken(y.fieldVal(o, it.Slot))
		case "node":
			v := y.fieldVal(o, it.Slot)
			if rf, ok := v.(gRef); ok && rf.Obj.Kind == "node" {
				if n, known := y.nilKnown(rf.Obj); known && n {
					continue
				}
				h, s1, e1 := enc.nodePos(v)
				spans = append(spans, span{h, s1, e1})
				descr = append(descr, "node("+rf.Obj.Origin+")")
				continue
			}
			atoms = y.ofNode(v)
		case "list":
			v := y.fieldVal(o, it.Slot)
			if l, ok := v.(*gList); ok {
				be, b, app, _ := enc.listParts(l)
				for _, el := range l.Pre {
					h, s1, e1 := enc.nodePos(el)
					spans = append(spans, span{h, s1, e1})
					descr = append(descr, "node("+describeG(el)+")")
				}
				if b != nil {
					s1, e1 := enc.listBaseSE(b)
					spans = append(spans, span{tNot(be), s1, e1})
					descr = append(descr, "list("+b.Origin+")")
				}
				for _, el := range app {
					h, s1, e1 := enc.nodePos(el)
					spans = append(spans, span{h, s1, e1})
					descr = append(descr, "node("+describeG(el)+")")
				}
				if stmtLists[o.T.Obj().Name()+"."+it.Slot] {
					last := true
					for _, it2 := range lay[li+1:] {
						if excl[it2.Slot] {
							continue
						}
						if v2 := y.fieldVal(o, it2.Slot); v2 != nil {
							if _, isNil := v2.(gNil); !isNil {
								last = false
							}
						}
					}
					if last {
						stmtEnd = true
					}
				}
				continue
			}
			atoms = y.ofList(v)
		case "il":
			atoms = y.ofIL(y.fieldVal(o, it.Slot), y.fieldVal(o, it.Sep))
		}
		for _, a := range atoms {
			if a.Kind == "bad" {
				enc.errs = append(enc.errs, a.Note)
				continue
			}
			if (a.Kind == "node" || a.Kind == "nodeopt") && y.expanded(a.Obj) {
				h, s1, e1 := enc.nodePos(gRef{a.Obj})
				spans = append(spans, span{h, s1, e1})
			} else {
				spans = append(spans, enc.atomSpan(a))
			}
			descr = append(descr, a.String())
		}
	}
	es, ee = minus1, minus1
	for i := len(spans) - 1; i >= 0; i-- {
		es = tIte(spans[i].Present, spans[i].S, es)
	}
	for i := 0; i < len(spans); i++ {
		ee = tIte(spans[i].Present, spans[i].E, ee)
	}
	return
}
