package main

// Per-kind contracts over E-TRACE traces: printer (C15), traverser (C12), dumper (C16).

import (
	"strconv"
	"path/filepath"
	"os/exec"
	"os"
	"encoding/json"
	"fmt"
	"go/types"
	"regexp"
	"sort"
	"strings"

	"golang.org/x/tools/go/ssa"
)

// feasible drops paths whose condition list contains c and !c.
func feasible(paths []*TPath) []*TPath {
	var out []*TPath
	for _, p := range paths {
		seen := map[string]bool{}
		ok := true
		for _, c := range p.Conds {
			if v, dup := seen[c.E.S]; dup && v != c.Val {
				ok = false
				break
			}
			seen[c.E.S] = c.Val
		}
		if ok {
			out = append(out, p)
		}
	}
	return out
}

type traceFamily struct {
	W       *World
	Pkg     string
	Recv    string // e.g. "printer"
	Methods map[string]*ssa.Function
	Traces  map[string][]*TPath
	Errs    map[string]string
}

func stdPure(fn *ssa.Function) bool {
	p := funcPkgPath(fn)
	if strings.HasPrefix(p, modPath) {
		return false
	}
	return fn.Signature.Results().Len() > 0 && (p == "bytes" || p == "strings" || p == "strconv" || p == "fmt")
}

func loadFamily(w *World, pkg, recv string) *traceFamily {
	f := &traceFamily{W: w, Pkg: pkg, Recv: recv, Methods: map[string]*ssa.Function{}, Traces: map[string][]*TPath{}, Errs: map[string]string{}}
	for _, fn := range w.methodsOf(pkg, recv) {
		f.Methods[fn.Name()] = fn
	}
	// package-level functions can be pinned as helpers too
	if sp := w.SSAPkgs[pkg]; sp != nil {
		for name, m := range sp.Members {
			if fn, ok := m.(*ssa.Function); ok && f.Methods[name] == nil && fn.Blocks != nil {
				f.Methods[name] = fn
			}
		}
	}
	return f
}

func (f *traceFamily) trace(name string) ([]*TPath, string) {
	if t, ok := f.Traces[name]; ok {
		return t, f.Errs[name]
	}
	fn := f.Methods[name]
	if fn == nil {
		f.Errs[name] = "method missing"
		f.Traces[name] = nil
		return nil, f.Errs[name]
	}
	paths, err := traceFunction(f.W, fn, func(g *ssa.Function) bool { return f.W.pureHelper(g) || stdPure(g) })
	if err != nil {
		f.Errs[name] = err.Error()
	}
	f.Traces[name] = feasible(paths)
	return f.Traces[name], f.Errs[name]
}

// canonical rendering of a helper's trace with parameter names replaced by positions
func (f *traceFamily) helperRendering(name string) (string, string) {
	paths, err := f.trace(name)
	if err != "" {
		return "", err
	}
	fn := f.Methods[name]
	var parts []string
	for _, p := range paths {
		s := renderEvents(p.Events)
		if len(p.Ret) > 0 {
			var rs []string
			for _, r := range p.Ret {
				rs = append(rs, r.S)
			}
			s += " => " + strings.Join(rs, ",")
		}
		parts = append(parts, "["+p.condString()+"] "+s)
	}
	out := strings.Join(parts, " || ")
	for i, p := range fn.Params {
		re := regexp.MustCompile(`\b` + regexp.QuoteMeta(p.Name()) + `\b`)
		out = re.ReplaceAllLiteralString(out, fmt.Sprintf("$%d", i))
	}
	return out, ""
}

func traceDirectives(w *World, pkg string) map[string][]string {
	out := map[string][]string{}
	cf := w.CFiles[pkg]
	if cf == nil {
		return out
	}
	for _, d := range cf.Directives {
		word, rest := splitWord(d)
		if word != "trace" {
			continue
		}
		k, v := splitWord(rest)
		out[k] = append(out[k], v)
	}
	return out
}

func (c *CheckCtx) addOb(name, class, site string, ok bool, why string) {
	o := &Obligation{Name: name, Class: class, Site: site, Solver: "trace-normaliser", Status: "unsat"}
	if !ok {
		o.Status = "sat"
		o.Output = why
	}
	c.Extra = append(c.Extra, o)
}

// checkHelpers compares the helper functions' traces with the renderings pinned in the contract file.
func (c *CheckCtx) checkHelpers(f *traceFamily, prefix string) {
	dirs := traceDirectives(c.W, f.Pkg)
	for _, h := range dirs["helper"] {
		i := strings.Index(h, ":=")
		if i < 0 {
			continue
		}
		name := strings.TrimSpace(h[:i])
		want := strings.TrimSpace(h[i+2:])
		got, err := f.helperRendering(name)
		if err != "" {
			c.addOb(prefix+"/helper/"+name, "trace", "", false, "cannot trace helper: "+err)
			continue
		}
		c.addOb(prefix+"/helper/"+name, "trace", c.W.pos(f.Methods[name].Pos()), strings.TrimSpace(got) == want,
			fmt.Sprintf("the body of helper %s no longer has the trace its contract states.\n contract: %s\n current:  %s", name, want, got))
	}
}

// ---------------------------------------------------------------------------
// C15: printer

type printedItem struct {
	Slot string // field name of n (or "Stmt/<Field>" for the alt-syntax peek)
	Kind string // token | vertex | vertices | seplist-items | seplist-seps
	Def  *SymE
	Ev   *TEvent
}

var reQuoted = regexp.MustCompile(`"(?:[^"\\]|\\.)*"`)
var reField = regexp.MustCompile(`^n\.([A-Za-z0-9_]+)$`)
var rePeek = regexp.MustCompile(`^n\.([A-Za-z0-9_]+)\.\(\*ast\.StmtStmtList\)\.([A-Za-z0-9_]+)$`)

// printerItems extracts the printed items of one path; errs lists anything outside the contract shape.
func printerItems(k *kindInfo, p *TPath, allowWrite map[string]bool) (items []printedItem, errs []string) {
	slotOf := func(e *SymE) (string, bool) {
		if m := reField.FindStringSubmatch(e.S); m != nil {
			return m[1], true
		}
		if m := rePeek.FindStringSubmatch(e.S); m != nil {
			return m[1] + "/" + m[2], true
		}
		return "", false
	}
	for _, ev := range p.Events {
		switch {
		case ev.Kind == "store":
			if !strings.HasPrefix(ev.Args[0].S, "&p.") {
				errs = append(errs, "stores to "+ev.Args[0].S)
			}
		case ev.Kind == "loop":
			errs = append(errs, "loop in a per-kind printer method: "+ev.String())
		case ev.Callee == "printToken":
			s, ok := slotOf(ev.Args[0])
			if !ok {
				errs = append(errs, "printToken of something that is not a slot of the node: "+ev.Args[0].S)
				continue
			}
			items = append(items, printedItem{Slot: s, Kind: "token", Def: ev.Args[1], Ev: ev})
		case ev.Callee == "printNode":
			s, ok := slotOf(ev.Args[0])
			if !ok {
				errs = append(errs, "printNode of "+ev.Args[0].S)
				continue
			}
			items = append(items, printedItem{Slot: s, Kind: "vertex", Ev: ev})
		case ev.Callee == "printList":
			s, ok := slotOf(ev.Args[0])
			if !ok {
				errs = append(errs, "printList of "+ev.Args[0].S)
				continue
			}
			items = append(items, printedItem{Slot: s, Kind: "vertices", Ev: ev})
		case ev.Callee == "printSeparatedList":
			s1, ok1 := slotOf(ev.Args[0])
			s2, ok2 := slotOf(ev.Args[1])
			if !ok1 || !ok2 {
				errs = append(errs, "printSeparatedList of "+ev.Args[0].S+", "+ev.Args[1].S)
				continue
			}
			items = append(items, printedItem{Slot: s1, Kind: "vertices", Ev: ev}, printedItem{Slot: s2, Kind: "tokens", Def: ev.Args[2], Ev: ev})
		case ev.Callee == "write":
			if !allowWrite[k.Name+" "+ev.Args[0].S] {
				errs = append(errs, "direct write of "+ev.Args[0].S)
			}
		default:
			errs = append(errs, "unexpected event "+ev.String())
		}
	}
	return
}

// defaultOK: a default lexeme is a literal, nil, the node's own Value, or an if*-helper over a slot
// of the same node choosing between such.
func defaultOK(e *SymE) bool {
	switch e.Kind {
	case "lit", "nil":
		return true
	case "path":
		return e.S == "n.Value"
	case "call":
		if !strings.HasPrefix(e.S, "if") {
			return false
		}
		if len(e.Args) < 2 {
			return false
		}
		if reField.FindStringSubmatch(e.Args[0].S) == nil {
			return false
		}
		for _, a := range e.Args[1:] {
			if !defaultOK(a) {
				return false
			}
		}
		return true
	}
	return false
}

func (c *CheckCtx) checkPrinter(kinds []kindInfo) map[string][]string {
	pkg := modPath + "/pkg/visitor/printer"
	f := loadFamily(c.W, pkg, "(*printer)")
	prefix := "pkg/visitor/printer"
	c.checkHelpers(f, prefix)
	dirs := traceDirectives(c.W, pkg)
	allowWrite := map[string]bool{}
	for _, a := range dirs["allow-write"] {
		allowWrite[a] = true
	}
	order := map[string][]string{} // kind -> child slot order (for C12)
	// printer's own trace for StmtStmtList (used to validate the alt-syntax peek)
	for ki := range kinds {
		k := &kinds[ki]
		paths, err := f.trace(k.Name)
		name := fmt.Sprintf("%s.(*printer).%s", prefix, k.Name)
		if err != "" || len(paths) == 0 {
			c.addOb(name+"/trace/method", "trace", "", false, "cannot trace: "+err)
			continue
		}
		site := c.W.pos(f.Methods[k.Name].Pos())
		for pi, p := range paths {
			pn := name
			if len(paths) > 1 {
				pn = fmt.Sprintf("%s/path%d", name, pi)
			}
			items, errs := printerItems(k, p, allowWrite)
			c.addOb(pn+"/trace/only-own-slots", "trace", site, len(errs) == 0, strings.Join(errs, "; ")+" on path ["+p.condString()+"]")
			// multiset: every printable slot exactly once
			count := map[string]int{}
			peeked := map[string][]string{}
			for _, it := range items {
				if i := strings.Index(it.Slot, "/"); i >= 0 {
					peeked[it.Slot[:i]] = append(peeked[it.Slot[:i]], it.Slot[i+1:])
					continue
				}
				count[it.Slot]++
			}
			for par, parts := range peeked {
				// the three parts of a StmtStmtList stand for the child itself
				if strings.Join(parts, ",") == "OpenCurlyBracketTkn,Stmts,CloseCurlyBracketTkn" {
					count[par]++
				} else {
					count[par] += 100
				}
			}
			var bad []string
			for _, s := range k.Slots {
				switch s.Class {
				case "token", "tokens", "vertex", "vertices":
					if count[s.Name] != 1 {
						bad = append(bad, fmt.Sprintf("%s printed %d times", s.Name, count[s.Name]))
					}
				}
			}
			for s := range count {
				if k.slot(s) == nil {
					bad = append(bad, "prints unknown slot "+s)
				}
			}
			sort.Strings(bad)
			c.addOb(pn+"/trace/each-slot-once", "trace", site, len(bad) == 0, strings.Join(bad, "; ")+" on path ["+p.condString()+"]: "+renderEvents(p.Events))
			// kinds of helper match the slot class
			var mism []string
			for _, it := range items {
				if strings.Contains(it.Slot, "/") {
					continue
				}
				if s := k.slot(it.Slot); s != nil && s.Class != it.Kind {
					mism = append(mism, fmt.Sprintf("%s is a %s slot printed as %s", it.Slot, s.Class, it.Kind))
				}
			}
			c.addOb(pn+"/trace/slot-class", "trace", site, len(mism) == 0, strings.Join(mism, "; "))
			// order: declared field order (the source order convention of pkg/ast/node.go)
			var got, want []string
			seenPar := map[string]bool{}
			for _, it := range items {
				s := it.Slot
				if i := strings.Index(s, "/"); i >= 0 {
					s = s[:i]
					if seenPar[s] {
						continue
					}
					seenPar[s] = true
				}
				got = append(got, s)
			}
			for _, s := range k.Slots {
				switch s.Class {
				case "token", "tokens", "vertex", "vertices":
					want = append(want, s.Name)
				}
			}
			orderOK := strings.Join(got, ",") == strings.Join(want, ",")
			if !orderOK && (c.OrderByGrammar[k.Name] || (k.Named != nil && c.OrderByGrammar[k.Named.Obj().Name()])) {
				// the struct declares its fields in another order than the printer emits them: the declared order is only a
				// convention of pkg/ast/node.go; the order the property speaks of is the grammar's, and that is what the
				// conserve obligations of this run decide for every rule that builds this kind
				orderOK = true
				c.Notes = append(c.Notes, fmt.Sprintf("%s: declared field order %v differs from the printer's order %v; the order is decided by the grammar-side conserve obligations", k.Name, want, got))
			}
			c.addOb(pn+"/trace/source-order", "trace", site, orderOK,
				fmt.Sprintf("printer emits %v, the node declares its parts in source order %v", got, want))
			// defaults
			var dbad []string
			for _, it := range items {
				if it.Def != nil && !defaultOK(it.Def) {
					dbad = append(dbad, fmt.Sprintf("default of %s is %s", it.Slot, it.Def.S))
				}
			}
			c.addOb(pn+"/trace/defaults", "trace", site, len(dbad) == 0, strings.Join(dbad, "; "))
			if pi == len(paths)-1 {
				var ch []string
				for _, it := range items {
					if (it.Kind == "vertex" || it.Kind == "vertices") && !strings.Contains(it.Slot, "/") {
						ch = append(ch, it.Slot)
					}
				}
				order[k.Name] = ch
			}
		}
	}
	if len(c.Samples) < 3 {
		if p, _ := f.trace("StmtIf"); len(p) > 0 {
			c.Samples = append(c.Samples, map[string]interface{}{"kind": "StmtIf", "path": p[0].condString(), "trace": renderEvents(p[0].Events)})
		}
	}
	return order
}

// ---------------------------------------------------------------------------
// Accept double dispatch (pkg/ast/node.go)

func (c *CheckCtx) checkAccept(kinds []kindInfo) {
	for ki := range kinds {
		k := &kinds[ki]
		name := fmt.Sprintf("pkg/ast.(*%s).Accept", k.Named.Obj().Name())
		fn := c.W.lookupFunc(modPath+"/pkg/ast", "(*"+k.Named.Obj().Name()+").Accept")
		if fn == nil {
			c.addOb(name+"/trace/dispatch", "trace", "", false, "no Accept method")
			continue
		}
		paths, err := traceFunction(c.W, fn, nil)
		ok := err == nil && len(paths) == 1 && len(paths[0].Events) == 1
		why := ""
		if ok {
			ev := paths[0].Events[0]
			ok = ev.IsInvoke && ev.Callee == k.Name && ev.Recv != nil && ev.Recv.S == "v" && len(ev.Args) == 1 && ev.Args[0].S == "n"
			why = "Accept body is " + ev.String() + ", expected v." + k.Name + "(n)"
		} else if err != nil {
			why = err.Error()
		} else {
			why = "Accept is not a single call"
		}
		c.addOb(name+"/trace/dispatch", "trace", c.W.pos(fn.Pos()), ok, why)
		// GetPosition returns the node's own Position
		gp := c.W.lookupFunc(modPath+"/pkg/ast", "(*"+k.Named.Obj().Name()+").GetPosition")
		if gp != nil {
			ps, err := traceFunction(c.W, gp, nil)
			ok := err == nil && len(ps) == 1 && len(ps[0].Events) == 0 && len(ps[0].Ret) == 1 && ps[0].Ret[0].S == "n.Position"
			c.addOb(fmt.Sprintf("pkg/ast.(*%s).GetPosition/trace/returns-own-position", k.Named.Obj().Name()), "trace", c.W.pos(gp.Pos()), ok, "GetPosition does not simply return n.Position")
		}
	}
}

// ---------------------------------------------------------------------------
// C12: traverser

func (c *CheckCtx) checkTraverser(kinds []kindInfo, printerOrder map[string][]string) {
	pkg := modPath + "/pkg/visitor/traverser"
	f := loadFamily(c.W, pkg, "(*Traverser)")
	prefix := "pkg/visitor/traverser"
	c.checkHelpers(f, prefix)
	for ki := range kinds {
		k := &kinds[ki]
		name := fmt.Sprintf("%s.(*Traverser).%s", prefix, k.Name)
		paths, err := f.trace(k.Name)
		if err != "" || len(paths) == 0 {
			c.addOb(name+"/trace/method", "trace", "", false, "cannot trace: "+err)
			continue
		}
		site := c.W.pos(f.Methods[k.Name].Pos())
		ok := len(paths) == 1
		c.addOb(name+"/trace/unconditional", "trace", site, ok, "the method visits children conditionally: "+fmt.Sprint(len(paths))+" paths")
		p := paths[0]
		// first event: n.Accept(t.v)
		first := len(p.Events) > 0 && p.Events[0].Kind == "call" && p.Events[0].Callee == "Accept" && p.Events[0].Recv != nil && p.Events[0].Recv.S == "n" &&
			len(p.Events[0].Args) == 1 && p.Events[0].Args[0].S == "t.v"
		c.addOb(name+"/trace/parent-first", "trace", site, first, "first event is not n.Accept(t.v): "+renderEvents(p.Events))
		var visited []string
		var errs []string
		for ei, ev := range p.Events {
			if ei == 0 && first {
				continue
			}
			switch {
			case ev.Kind == "call" && ev.Callee == "Traverse" && ev.Recv != nil && ev.Recv.S == "t" && len(ev.Args) == 1:
				if m := reField.FindStringSubmatch(ev.Args[0].S); m != nil {
					visited = append(visited, m[1])
				} else {
					errs = append(errs, "traverses "+ev.Args[0].S)
				}
			case ev.Kind == "loop":
				// body: exactly one event elem.Accept(t)
				okb := len(ev.Body) == 1 && len(ev.Body[0].Conds) == 0 && len(ev.Body[0].Events) == 1
				if okb {
					be := ev.Body[0].Events[0]
					okb = be.Callee == "Accept" && be.Recv != nil && strings.HasSuffix(be.Recv.S, "[idx]") && len(be.Args) == 1 && be.Args[0].S == "t"
					if okb {
						sl := strings.TrimSuffix(be.Recv.S, "[idx]")
						if m := reField.FindStringSubmatch(sl); m != nil {
							visited = append(visited, m[1])
						} else {
							okb = false
						}
					}
				}
				if !okb {
					errs = append(errs, "loop body is not `elem.Accept(t)` over a slot of n: "+ev.String())
				}
			default:
				errs = append(errs, "unexpected event "+ev.String())
			}
		}
		c.addOb(name+"/trace/nothing-else", "trace", site, len(errs) == 0, strings.Join(errs, "; "))
		var want []string
		for _, s := range k.Slots {
			if s.Class == "vertex" || s.Class == "vertices" {
				want = append(want, s.Name)
			}
		}
		sv := append([]string{}, visited...)
		sw := append([]string{}, want...)
		sort.Strings(sv)
		sort.Strings(sw)
		c.addOb(name+"/trace/every-child-once", "trace", site, strings.Join(sv, ",") == strings.Join(sw, ","),
			fmt.Sprintf("child slots of %s are %v, the traverser visits %v", k.Name, want, visited))
		po := printerOrder[k.Name]
		c.addOb(name+"/trace/source-order", "trace", site, strings.Join(visited, ",") == strings.Join(po, ","),
			fmt.Sprintf("traverser visits %v, the printer (source order) emits %v", visited, po))
	}
	// Traverse(n): nil is a no-op, otherwise dispatch through Accept with the traverser itself
	got, err := f.helperRendering("Traverse")
	want := "[($1 != nil)] $1.Accept($0) || [!(($1 != nil))] "
	c.addOb(prefix+".(*Traverser).Traverse/trace/dispatch", "trace", "", err == "" && strings.TrimSpace(got) == strings.TrimSpace(want), "Traverse has trace "+got+" expected "+want+" "+err)
}

// ---------------------------------------------------------------------------
// C16: dumper

func dumperFuncFor(class string) string {
	switch class {
	case "token":
		return "dumpToken"
	case "tokens":
		return "dumpTokenList"
	case "vertex":
		return "dumpVertex"
	case "vertices":
		return "dumpVertexList"
	case "position":
		return "dumpPosition"
	case "value":
		return "dumpValue"
	}
	return ""
}

func (c *CheckCtx) checkDumper(kinds []kindInfo) {
	pkg := modPath + "/pkg/visitor/dumper"
	f := loadFamily(c.W, pkg, "(*Dumper)")
	prefix := "pkg/visitor/dumper"
	c.checkHelpers(f, prefix)
	for ki := range kinds {
		k := &kinds[ki]
		name := fmt.Sprintf("%s.(*Dumper).%s", prefix, k.Name)
		paths, err := f.trace(k.Name)
		if err != "" || len(paths) == 0 {
			c.addOb(name+"/trace/method", "trace", "", false, "cannot trace: "+err)
			continue
		}
		site := c.W.pos(f.Methods[k.Name].Pos())
		c.addOb(name+"/trace/unconditional", "trace", site, len(paths) == 1, fmt.Sprintf("%d paths", len(paths)))
		evs := paths[0].Events
		tn := k.Named.Obj().Name()
		// frame of the literal
		okOpen := len(evs) >= 4 && evs[0].Callee == "print" && len(evs[0].Args) == 2 && evs[0].Args[0].S == "0" && evs[0].Args[1].S == fmt.Sprintf("%q", "&ast."+tn+"{\n") &&
			evs[1].Kind == "store" && evs[1].Args[0].S == "&v.indent" && evs[1].Args[1].S == "(v.indent + 1)"
		n := len(evs)
		okClose := n >= 4 && evs[n-1].Callee == "print" && len(evs[n-1].Args) == 2 && evs[n-1].Args[0].S == "v.indent" && evs[n-1].Args[1].S == fmt.Sprintf("%q", "},\n") &&
			evs[n-2].Kind == "store" && evs[n-2].Args[0].S == "&v.indent" && evs[n-2].Args[1].S == "(v.indent - 1)"
		c.addOb(name+"/trace/literal-frame", "trace", site, okOpen && okClose, fmt.Sprintf("expected `&ast.%s{` … `},` with balanced indentation; trace: %s", tn, renderEvents(evs)))
		count := map[string]int{}
		var errs []string
		if okOpen && okClose {
			for _, ev := range evs[2 : n-2] {
				if ev.Kind != "call" || ev.Recv == nil || ev.Recv.S != "v" {
					errs = append(errs, "unexpected event "+ev.String())
					continue
				}
				var label string
				var arg *SymE
				if ev.Callee == "dumpPosition" && len(ev.Args) == 1 {
					label, arg = "Position", ev.Args[0]
				} else if len(ev.Args) == 2 && ev.Args[0].Kind == "lit" {
					label, arg = strings.Trim(ev.Args[0].S, `"`), ev.Args[1]
				} else {
					errs = append(errs, "unexpected event "+ev.String())
					continue
				}
				m := reField.FindStringSubmatch(arg.S)
				if m == nil {
					errs = append(errs, "dumps "+arg.S+" which is not a field of the node")
					continue
				}
				s := k.slot(m[1])
				if s == nil {
					errs = append(errs, "unknown field "+m[1])
					continue
				}
				count[s.Name]++
				wantLabel := s.Name
				if s.Class == "value" {
					wantLabel = "Val"
				}
				if label != wantLabel {
					errs = append(errs, fmt.Sprintf("field %s dumped under label %q", s.Name, label))
				}
				if wf := dumperFuncFor(s.Class); wf != ev.Callee {
					errs = append(errs, fmt.Sprintf("field %s (%s) dumped with %s, expected %s", s.Name, s.Class, ev.Callee, wf))
				}
			}
		}
		sort.Strings(errs)
		c.addOb(name+"/trace/labels-and-functions", "trace", site, len(errs) == 0, strings.Join(errs, "; "))
		var bad []string
		for _, s := range k.Slots {
			if dumperFuncFor(s.Class) == "" {
				bad = append(bad, fmt.Sprintf("field %s has a type the dumper contract does not know (%s)", s.Name, shortType(s.Type)))
				continue
			}
			if count[s.Name] != 1 {
				bad = append(bad, fmt.Sprintf("%s dumped %d times", s.Name, count[s.Name]))
			}
		}
		c.addOb(name+"/trace/each-field-once", "trace", site, len(bad) == 0, strings.Join(bad, "; "))
	}
	if p, _ := f.trace("StmtUseDeclaration"); len(p) > 0 && len(c.Samples) < 3 {
		c.Samples = append(c.Samples, map[string]interface{}{"kind": "StmtUseDeclaration", "trace": renderEvents(p[0].Events)})
	}
}

var _ = types.Typ

// checkDefaultLexemes (C15: "where a token is absent the printer substitutes the construct's
// canonical lexeme ..., never another node's text"): a literal default of a token slot must be a
// lexeme of a terminal that the grammars store in that slot. The terminals per slot come from the
// grammar actions (E-GRAM), the terminal of a literal from running the real lexer on it (ground
// evaluation); slots no grammar action fills with a terminal directly are skipped and counted.
func (c *CheckCtx) checkDefaultLexemes(kinds []kindInfo, runs map[string]*gramRun) {
	pkg := modPath + "/pkg/visitor/printer"
	f := loadFamily(c.W, pkg, "(*printer)")
	dirs := traceDirectives(c.W, pkg)
	allowWrite := map[string]bool{}
	for _, a := range dirs["allow-write"] {
		allowWrite[a] = true
	}
	except := map[string]bool{}
	for _, d := range dirs["default-lexeme-ok"] {
		if fs := strings.Fields(d); len(fs) > 0 {
			except[fs[0]] = true
		}
	}
	type ds struct{ kind, slot, lit string }
	var all []ds
	lits := map[string]bool{}
	for ki := range kinds {
		k := &kinds[ki]
		paths, err := f.trace(k.Name)
		if err != "" {
			continue
		}
		seen := map[string]bool{}
		for _, p := range paths {
			items, _ := printerItems(k, p, allowWrite)
			for _, it := range items {
				if it.Kind != "token" || it.Def == nil {
					continue
				}
				// every string literal inside the default expression (a literal, or if*-helpers choosing one)
				for _, lit := range reQuoted.FindAllString(it.Def.S, -1) {
					if lit == `""` || seen[it.Slot+lit] {
						continue
					}
					seen[it.Slot+lit] = true
					all = append(all, ds{k.Name, it.Slot, lit})
					lits[lit] = true
				}
			}
		}
	}
	term, err := lexLiterals(sortedKeys(lits))
	if err != "" {
		c.addOb("pkg/visitor/printer/default-lexeme/ground-evaluation", "trace", "", false, "cannot run the real lexer on the default lexemes: "+err)
		return
	}
	skipped := 0
	for _, d := range all {
		want := map[string]bool{}
		for _, r := range runs {
			for t := range r.Res.SlotTerms[d.kind+"."+d.slot] {
				want[t] = true
			}
		}
		if len(want) == 0 {
			skipped++
			continue
		}
		got := term[d.lit]
		ok := want[got] || except[d.kind+"."+d.slot]
		var ws []string
		for t := range want {
			ws = append(ws, t)
		}
		sort.Strings(ws)
		c.addOb(fmt.Sprintf("pkg/visitor/printer.(*printer).%s/default-lexeme/%s", d.kind, d.slot), "trace", "", ok,
			fmt.Sprintf("the default %s of %s.%s is lexed as %s, but the grammars store %s in this slot: the printer would substitute another construct's text", d.lit, d.kind, d.slot, got, strings.Join(ws, " / ")))
	}
	c.CoverageExtra["default_lexeme_slots_without_direct_terminal"] = skipped
	c.assume("ground-eval: the terminal of each default lexeme is obtained by running the real lexer on `<?php <lexeme> ` (replay/c15_lexeme_test.go)")
}

// lexLiterals runs the lexeme harness; result: Go-quoted literal -> terminal name.
func lexLiterals(quoted []string) (map[string]string, string) {
	src := filepath.Join(verifDir, "replay", "c15_lexeme_test.go")
	tmp, err := os.MkdirTemp("", "vclex")
	if err != nil {
		return nil, err.Error()
	}
	defer os.RemoveAll(tmp)
	target := filepath.Join(repoDir, "internal/scanner", "zz_vc_lexeme_test.go")
	ovData, _ := json.Marshal(map[string]interface{}{"Replace": map[string]string{target: src}})
	ovPath := filepath.Join(tmp, "overlay.json")
	os.WriteFile(ovPath, ovData, 0o644)
	cmd := exec.Command("go", "test", "-overlay", ovPath, "-v", "-vet=off", "-count=1", "-timeout", "120s", "-run", "TestVCLexemes", "./internal/scanner")
	cmd.Dir = repoDir
	cmd.Env = append(os.Environ(), "GOFLAGS=-mod=mod", "GOPROXY=off", "GOSUMDB=off", "GOTOOLCHAIN=local", "VC_LEXEMES="+strings.Join(quoted, "\x1f"))
	out, _ := cmd.CombinedOutput()
	res := map[string]string{}
	for _, l := range strings.Split(string(out), "\n") {
		l = strings.TrimSpace(l)
		if !strings.HasPrefix(l, "LEX ") {
			continue
		}
		rest := l[4:]
		// the quoted literal ends at the last `" ` before the terminal
		i := strings.LastIndex(rest, "\" ")
		j := strings.Index(rest, "\" ")
		_ = i
		for j >= 0 {
			q := rest[:j+1]
			if _, err := strconv.Unquote(q); err == nil {
				fs := strings.Fields(rest[j+2:])
				if len(fs) > 0 {
					res[q] = fs[0]
				}
				break
			}
			k := strings.Index(rest[j+1:], "\" ")
			if k < 0 {
				break
			}
			j = j + 1 + k
		}
	}
	if len(res) == 0 {
		return nil, truncate(string(out), 600)
	}
	return res, ""
}
