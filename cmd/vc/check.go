package main

// Per-property check driver: gathers obligations from the engines, discharges them,
// matches failures against known findings, replays, writes evidence.

import (
	"encoding/json"
	"fmt"
	"os"
	"path/filepath"
	"sort"
	"strconv"
	"strings"
	"sync"
	"time"

	"golang.org/x/tools/go/ssa"
)

var verifDir = func() string {
	if d := os.Getenv("VC_VERIF"); d != "" {
		return d
	}
	return "/verif"
}()

type Finding struct {
	Status     string `json:"status"` // known | fixed
	Property   string `json:"property"`
	Obligation string `json:"obligation"` // name or glob
	Witness    string `json:"witness"`
	What       string `json:"what"`
	Commit     string `json:"commit,omitempty"`
}

func loadFindings() []Finding {
	var out []Finding
	data, err := os.ReadFile(filepath.Join(verifDir, "known_findings.jsonl"))
	if err != nil {
		return nil
	}
	for _, l := range strings.Split(string(data), "\n") {
		l = strings.TrimSpace(l)
		if l == "" || strings.HasPrefix(l, "#") {
			continue
		}
		var f Finding
		if err := json.Unmarshal([]byte(l), &f); err == nil {
			out = append(out, f)
		}
	}
	return out
}

func globMatch(pat, s string) bool {
	// '*' matches any substring
	parts := strings.Split(pat, "*")
	if len(parts) == 1 {
		return pat == s
	}
	if !strings.HasPrefix(s, parts[0]) {
		return false
	}
	s = s[len(parts[0]):]
	for i := 1; i < len(parts)-1; i++ {
		k := strings.Index(s, parts[i])
		if k < 0 {
			return false
		}
		s = s[k+len(parts[i]):]
	}
	return strings.HasSuffix(s, parts[len(parts)-1])
}

// CheckCtx accumulates everything a property check produces.
type CheckCtx struct {
	Prop      string
	Tier      string
	Seed      int64
	W         *World
	Reports   []*FuncReport
	Extra     []*Obligation // obligations decided by non-SMT engines (status already set)
	Bounded   []BoundedCheck
	Tables    []string
	OrderByGrammar map[string]bool // C15: kinds whose printer order is exercised by discharged-or-failing conserve obligations of this run
	ExtraFuncs []string // functions under contract that are verified by an engine other than E-VC (generated machines)
	Assume    map[string]bool
	Trusted   map[string]bool
	Samples   []interface{}
	Notes     []string
	Level     string
	Explain   string
	Technique string
	mu        sync.Mutex
	CoverageExtra map[string]interface{}
}

type BoundedCheck struct {
	Name   string `json:"name"`
	Bound  string `json:"bound"`
	Cases  int    `json:"cases"`
	Failed int    `json:"failed"`
	Detail string `json:"detail,omitempty"`
}

func (c *CheckCtx) assume(s string) {
	c.mu.Lock()
	c.Assume[s] = true
	c.mu.Unlock()
}

var standingAssumptions = []string{
	"go/packages, go/types, go/ssa (x/tools v0.29.0) lower the source faithfully; the Go compiler implements the same semantics",
	"this task's generators (symbolic core, heap model, SMT emitter) are correct; guarded by the must-fail selftest corpus, not otherwise verified",
	"z3 4.8.12 / z3 5.1.0 / cvc5 1.0 are sound",
	"Go int is modelled as a mathematical integer (lengths and offsets stay far below 2^63)",
	"Go memory model; no unsafe/reflect in library code (checked each run by the frame engine where used)",
}

// addFunctionUnits verifies every function whose contract lists the property.
func (c *CheckCtx) addFunctionUnits(filter func(con *Contract) bool) {
	type job struct {
		fn  *ssa.Function
		con *Contract
	}
	var jobs []job
	var paths []string
	for p := range c.W.CFiles {
		paths = append(paths, p)
	}
	sort.Strings(paths)
	for _, p := range paths {
		cf := c.W.CFiles[p]
		for _, k := range sortedKeys(cf.Contracts) {
			con := cf.Contracts[k]
			if !filter(con) {
				continue
			}
			if p == modPath+"/internal/scanner" && k == "(*Lexer).Lex" {
				continue // the generated machine is verified by the scanner engine (addScan), not by E-VC
			}
			if k == "(*yyParserImpl).Parse" {
				continue // the generated LR driver is verified by the driver engine (addDrv), not by E-VC
			}
			fn := c.W.lookupFunc(p, k)
			if fn == nil {
				c.Extra = append(c.Extra, &Obligation{Name: shortPkg(p) + "." + k + "/contract/function-exists", Class: "contract", Status: "sat",
					Output: "the contract file names a function that no longer exists in the package", Solver: "loader"})
				continue
			}
			jobs = append(jobs, job{fn, con})
		}
	}
	// generation is sequential (shared world caches), solving is parallel
	for _, j := range jobs {
		rep := verifyFunction(c.W, j.fn, j.con, []string{c.Prop})
		c.Reports = append(c.Reports, rep)
	}
}

func hasProp(con *Contract, p string) bool {
	for _, q := range con.Props {
		if q == p {
			return true
		}
	}
	return false
}

func (c *CheckCtx) solveAll() float64 {
	opts := SolveOpts{TimeoutMs: 10000, Primary: "z3-new", Fallbacks: []string{"z3", "cvc5"}}
	if c.Tier == "thorough" {
		opts.CrossCheck = true
		opts.TimeoutMs = 30000
	}
	var wg sync.WaitGroup
	sem := make(chan struct{}, 14)
	var total float64
	var mu sync.Mutex
	for _, r := range c.Reports {
		if r.OutOfSub != "" || r.Trusted {
			continue
		}
		wg.Add(1)
		go func(r *FuncReport) {
			defer wg.Done()
			sem <- struct{}{}
			t := r.Script.Solve(opts)
			<-sem
			r.SolverTime = t
			mu.Lock()
			total += t
			mu.Unlock()
		}(r)
	}
	wg.Wait()
	return total
}

const maxReported = 25

type failure struct {
	ob    *Obligation
	fn    *FuncReport
	known *Finding
}

func runCheck(prop, tier string) int {
	t0 := time.Now()
	if tier == "" {
		tier = "quick"
	}
	seed := int64(1)
	if s := os.Getenv("VERIF_SEED"); s != "" {
		if v, err := strconv.ParseInt(s, 10, 64); err == nil {
			seed = v
		}
	}
	builder, ok := propBuilders[prop]
	if !ok {
		fmt.Fprintf(os.Stderr, "no check for property %s\n", prop)
		return 2
	}
	w, err := loadWorld("./...")
	if err != nil {
		// the tree does not load: nothing can be verified
		fmt.Fprintln(os.Stderr, "load error:", err)
		return 2
	}
	w.registerKeySorts()
	c := &CheckCtx{Prop: prop, Tier: tier, Seed: seed, W: w, Assume: map[string]bool{}, Trusted: map[string]bool{}, Level: "proof", CoverageExtra: map[string]interface{}{}}
	for _, a := range standingAssumptions {
		c.Assume[a] = true
	}
	builder(c)
	solverTime := c.solveAll()

	findings := loadFindings()
	var fails []failure
	nObl, nDis := 0, 0
	byBackend := map[string]int{}
	byClass := map[string]int{}
	funcs := append([]string{}, c.ExtraFuncs...)
	var outOfSubset []string
	var samples []interface{}
	vacuous := 0
	for _, r := range c.Reports {
		if r.Trusted {
			c.Trusted[r.Name+" (contract marked trusted: assumed, body not verified)"] = true
			continue
		}
		if r.OutOfSub != "" {
			outOfSubset = append(outOfSubset, r.Name+": "+r.OutOfSub)
			o := &Obligation{Name: r.Name + "/subset/function-within-modelled-subset", Class: "subset", Status: "unknown", Output: "function left the modelled Go subset: " + r.OutOfSub, Solver: "generator"}
			fails = append(fails, failure{ob: o, fn: r})
			nObl++
			continue
		}
		funcs = append(funcs, r.Name)
		for _, a := range r.Assumed {
			c.Assume[a] = true
		}
		for _, cal := range r.Callees {
			_ = cal
		}
		for _, o := range r.Script.Obls {
			if o.ExpectFail {
				if o.Status == "unsat" {
					vacuous++
					o2 := *o
					o2.Output = "vacuity guard: this must be satisfiable but the solver refuted it (contradictory precondition or assumption)"
					fails = append(fails, failure{ob: &o2, fn: r})
				}
				continue
			}
			nObl++
			byClass[strings.SplitN(o.Class, ":", 2)[0]]++
			if o.Status == "unsat" {
				nDis++
				byBackend[o.Solver]++
				if len(samples) < 6 && (o.Class != "nil") {
					samples = append(samples, map[string]interface{}{"obligation": o.Name, "backend": o.Solver, "site": o.Site})
				}
			} else {
				fails = append(fails, failure{ob: o, fn: r})
			}
		}
	}
	for _, o := range c.Extra {
		nObl++
		byClass[o.Class]++
		if o.Status == "unsat" {
			nDis++
			byBackend[o.Solver]++
			if len(samples) < 10 {
				samples = append(samples, map[string]interface{}{"obligation": o.Name, "backend": o.Solver, "site": o.Site})
			}
		} else {
			fails = append(fails, failure{ob: o})
		}
	}
	samples = append(samples, c.Samples...)

	// match against known findings
	knownCount := map[*Finding]int{}
	knownFirst := map[*Finding]string{}
	var knownOrder []*Finding
	violations := 0
	var knownSeen []string
	exit := 0
	for i := range fails {
		f := &fails[i]
		for k := range findings {
			fd := &findings[k]
			if fd.Status == "known" && fd.Property == prop && globMatch(fd.Obligation, f.ob.Name) {
				f.known = fd
				break
			}
		}
		if f.known != nil {
			knownCount[f.known]++
			if knownCount[f.known] == 1 {
				knownFirst[f.known] = f.ob.Name
				knownOrder = append(knownOrder, f.known)
			}
			knownSeen = append(knownSeen, f.ob.Name)
			continue
		}
		violations++
		exit = 1
		if violations > maxReported {
			continue
		}
		path := writeReplay(c, f)
		suffix := ""
		if !replayHasInput(path) {
			suffix = " no-failing-input-found"
		}
		fmt.Printf("VIOLATION property=%s replay=%s obligation=%s%s\n", prop, path, f.ob.Name, suffix)
	}
	for _, fd := range knownOrder {
		more := ""
		if knownCount[fd] > 1 {
			more = fmt.Sprintf(" (+%d more obligations of the same finding)", knownCount[fd]-1)
		}
		fmt.Printf("KNOWN-FINDING: property=%s %s%s witness=%s (%s)\n", prop, knownFirst[fd], more, fd.Witness, fd.What)
	}
	if violations > maxReported {
		fmt.Printf("... and %d more failed obligations of property %s (not listed individually; evidence has the count)\n", violations-maxReported, prop)
	}
	boundedKnown := map[*Finding]int{}
	for _, b := range c.Bounded {
		if b.Failed > 0 {
			// bounded stand-ins report like obligations, by name
			name := "bounded/" + b.Name
			var hit *Finding
			for k := range findings {
				fd := &findings[k]
				if fd.Status == "known" && fd.Property == prop && globMatch(fd.Obligation, name) {
					hit = fd
					break
				}
			}
			if hit != nil {
				boundedKnown[hit]++
				if boundedKnown[hit] == 1 {
					fmt.Printf("KNOWN-FINDING: property=%s %s witness=%s (%s)\n", prop, name, hit.Witness, hit.What)
				}
				continue
			}
			violations++
			exit = 1
			if violations > maxReported {
				continue
			}
			dir := filepath.Join(verifDir, "replays", c.Prop)
			os.MkdirAll(dir, 0o755)
			path := filepath.Join(dir, sanitize(truncate(name, 120))+".json")
			m := map[string]interface{}{"property": c.Prop, "obligation": name, "class": "bounded", "failing_input_reproduced": true,
				"failing_input": b.Name, "observed": b.Detail, "note": "found by running the real code (bounded stand-in: " + b.Bound + ")"}
			data, _ := json.MarshalIndent(m, "", " ")
			os.WriteFile(path, data, 0o644)
			fmt.Printf("VIOLATION property=%s replay=%s obligation=%s\n", prop, path, truncate(name, 200))
		}
	}

	// evidence
	var trusted []string
	for k := range c.Trusted {
		trusted = append(trusted, k)
	}
	sort.Strings(trusted)
	trusted = append(trusted, "SMT back ends: z3-new 5.1.0 (primary), z3 4.8.12, cvc5 1.0 (fallback / cross-check)", "go/ssa lowering (x/tools v0.29.0)", "the VC generator in /verif/cmd/vc")
	nKnownObl := len(knownSeen)
	cov := map[string]interface{}{
		"obligations":              nObl - nKnownObl,
		"known_finding_obligations": nKnownObl,
		"discharged":               nDis,
		"checker_cmd":              fmt.Sprintf("bin/vc check --property %s --tier %s", prop, tier),
		"trusted_base":             trusted,
		"samples":                  samples,
		"functions_under_contract": funcs,
		"by_backend":               byBackend,
		"by_class":                 byClass,
		"solver_time_s":            solverTime,
		"out_of_subset":            outOfSubset,
		"known_findings_seen":      knownSeen,
		"bounded_checks":           c.Bounded,
		"table_lemmas":             c.Tables,
		"vacuity_guards_failed":    vacuous,
		"undischarged":             len(fails) - nKnownObl,
		"notes":                    c.Notes,
	}
	for k, v := range c.CoverageExtra {
		cov[k] = v
	}
	if c.Explain != "" {
		cov["explanation"] = c.Explain
	}
	// generic counts as well (accepted fallback keys)
	cov["evaluations"] = nObl - nKnownObl
	cov["distinct_nontrivial"] = nDis
	cov["rule"] = "one case = one named proof obligation generated from the current source; non-trivial = required a solver/engine decision (syntactically true conditions are not emitted)"
	ev := map[string]interface{}{
		"property_id": prop,
		"tier":        tier,
		"seed":        seed,
		"level":       c.Level,
		"coverage":    cov,
		"assumptions": sortedKeys(c.Assume),
		"wall_s":      time.Since(t0).Seconds(),
		"violations":  violations,
	}
	os.MkdirAll(filepath.Join(verifDir, "evidence"), 0o755)
	data, _ := json.MarshalIndent(ev, "", " ")
	os.WriteFile(filepath.Join(verifDir, "evidence", prop+".json"), data, 0o644)
	fmt.Printf("%s %s: %d obligations, %d discharged, %d known findings (%d obligations), %d violations, %.1fs\n", prop, tier, nObl-nKnownObl, nDis, len(knownOrder), nKnownObl, violations, time.Since(t0).Seconds())
	if nObl == 0 {
		fmt.Println("no obligations generated: vacuous check")
		return 1
	}
	return exit
}

func replayHasInput(path string) bool {
	data, err := os.ReadFile(path)
	if err != nil {
		return false
	}
	var m map[string]interface{}
	if json.Unmarshal(data, &m) != nil {
		return false
	}
	v, _ := m["failing_input_reproduced"].(bool)
	return v
}

func writeReplay(c *CheckCtx, f *failure) string {
	dir := filepath.Join(verifDir, "replays", c.Prop)
	os.MkdirAll(dir, 0o755)
	path := filepath.Join(dir, sanitize(f.ob.Name)+".json")
	m := map[string]interface{}{
		"property":      c.Prop,
		"obligation":    f.ob.Name,
		"class":         f.ob.Class,
		"site":          f.ob.Site,
		"solver":        f.ob.Solver,
		"solver_status": f.ob.Status,
		"solver_output": truncate(f.ob.Output, 4000),
		"model":         f.ob.Model,
		"note":          f.ob.Note,
	}
	if f.ob.Goal != nil {
		m["goal"] = truncate(f.ob.Goal.String(), 2000)
	}
	res := replayOnRealCode(c, f)
	m["failing_input_reproduced"] = res.Reproduced
	m["replay"] = res
	data, _ := json.MarshalIndent(m, "", " ")
	os.WriteFile(path, data, 0o644)
	return path
}

func truncate(s string, n int) string {
	if len(s) > n {
		return s[:n] + "…"
	}
	return s
}
