package main

// Reading a goyacc grammar file (.y): only what E-GRAM needs — the list of rules with their
// left-hand side, right-hand-side symbols and source line, and the union member of every symbol.
// The grammar file is used for *names*; what is verified is the action code in the generated .go
// file. Rule count and right-hand-side lengths are cross-checked against yyR1/yyR2 on every run.

import (
	"fmt"
	"os"
	"strings"
)

type yRule struct {
	Num      int // goyacc numbering: 1-based in order of appearance
	LHS      string
	RHS      []string
	Line     int // line of the action (or of the alternative when there is no action)
	HasError bool
	HasAct   bool
}

type yGrammar struct {
	File  string
	Rules []*yRule          // index = Num-1
	Type  map[string]string // symbol -> union member ("node", "token", "list"); terminals: "token"
	Term  map[string]bool
}

// IsTerminal: declared by %token, or a character literal.
func (g *yGrammar) IsTerminal(sym string) bool {
	return g.Term[sym] || strings.HasPrefix(sym, "'")
}

func (r *yRule) String() string {
	return fmt.Sprintf("%s: %s", r.LHS, strings.Join(r.RHS, " "))
}

func parseYacc(path string) (*yGrammar, error) {
	data, err := os.ReadFile(path)
	if err != nil {
		return nil, err
	}
	g := &yGrammar{File: path, Type: map[string]string{}, Term: map[string]bool{}}
	src := string(data)
	// split at the first line that is exactly "%%"
	lines := strings.Split(src, "\n")
	rulesStart := -1
	for i, l := range lines {
		if strings.TrimSpace(l) == "%%" {
			rulesStart = i + 1
			break
		}
	}
	if rulesStart < 0 {
		return nil, fmt.Errorf("%s: no %%%% separator", path)
	}
	// declarations
	for _, l := range lines[:rulesStart-1] {
		t := strings.TrimSpace(l)
		for _, kw := range []string{"%token", "%type", "%left", "%right", "%nonassoc"} {
			if !strings.HasPrefix(t, kw) {
				continue
			}
			rest := strings.TrimSpace(t[len(kw):])
			typ := ""
			if strings.HasPrefix(rest, "<") {
				j := strings.Index(rest, ">")
				typ = rest[1:j]
				rest = rest[j+1:]
			}
			for _, s := range strings.Fields(rest) {
				if kw != "%type" {
					g.Term[s] = true
				}
				if typ != "" {
					g.Type[s] = typ
				}
			}
		}
	}
	// rules section: a small tokenizer
	body := strings.Join(lines[rulesStart:], "\n")
	lineOf := func(off int) int { return rulesStart + 1 + strings.Count(body[:off], "\n") }
	i := 0
	n := len(body)
	var lhs string
	var cur *yRule
	flush := func() {
		if cur != nil {
			cur.Num = len(g.Rules) + 1
			g.Rules = append(g.Rules, cur)
			cur = nil
		}
	}
	for i < n {
		c := body[i]
		switch {
		case c == ' ' || c == '\t' || c == '\n' || c == '\r':
			i++
		case strings.HasPrefix(body[i:], "/*"):
			j := strings.Index(body[i+2:], "*/")
			if j < 0 {
				return nil, fmt.Errorf("unterminated comment")
			}
			i += j + 4
		case strings.HasPrefix(body[i:], "//"):
			for i < n && body[i] != '\n' {
				i++
			}
		case strings.HasPrefix(body[i:], "%%"):
			i = n
		case c == '{':
			// action block: brace matching aware of Go strings, runes and comments
			start := i
			depth := 0
			for i < n {
				switch {
				case body[i] == '{':
					depth++
					i++
				case body[i] == '}':
					depth--
					i++
				case body[i] == '"':
					i++
					for i < n && body[i] != '"' {
						if body[i] == '\\' {
							i++
						}
						i++
					}
					i++
				case body[i] == '`':
					i++
					for i < n && body[i] != '`' {
						i++
					}
					i++
				case body[i] == '\'':
					i++
					for i < n && body[i] != '\'' {
						if body[i] == '\\' {
							i++
						}
						i++
					}
					i++
				case strings.HasPrefix(body[i:], "//"):
					for i < n && body[i] != '\n' {
						i++
					}
				case strings.HasPrefix(body[i:], "/*"):
					j := strings.Index(body[i+2:], "*/")
					i += j + 4
				default:
					i++
				}
				if depth == 0 {
					break
				}
			}
			if cur == nil {
				return nil, fmt.Errorf("%s:%d: action outside a rule", path, lineOf(start))
			}
			if cur.HasAct {
				return nil, fmt.Errorf("%s:%d: mid-rule actions are not supported", path, lineOf(start))
			}
			cur.HasAct = true
			cur.Line = lineOf(start)
		case c == '|':
			flush()
			cur = &yRule{LHS: lhs, Line: lineOf(i)}
			i++
		case c == ';':
			flush()
			lhs = ""
			i++
		case c == '\'':
			j := i + 1
			for j < n && body[j] != '\'' {
				if body[j] == '\\' {
					j++
				}
				j++
			}
			sym := body[i : j+1]
			i = j + 1
			if cur == nil {
				return nil, fmt.Errorf("%s:%d: literal outside a rule", path, lineOf(i))
			}
			if cur.HasAct {
				return nil, fmt.Errorf("%s:%d: symbol after action (mid-rule action)", path, lineOf(i))
			}
			cur.RHS = append(cur.RHS, sym)
			g.Term[sym] = true
			if g.Type[sym] == "" {
				g.Type[sym] = "token"
			}
		case c == '%':
			// %prec X
			j := i + 1
			for j < n && (body[j] >= 'a' && body[j] <= 'z') {
				j++
			}
			word := body[i:j]
			i = j
			if word == "%prec" {
				for i < n && (body[i] == ' ' || body[i] == '\t') {
					i++
				}
				for i < n && !strings.ContainsRune(" \t\n{|;", rune(body[i])) {
					i++
				}
			}
		default:
			j := i
			for j < n && (body[j] == '_' || body[j] == '.' || (body[j] >= 'a' && body[j] <= 'z') || (body[j] >= 'A' && body[j] <= 'Z') || (body[j] >= '0' && body[j] <= '9')) {
				j++
			}
			if j == i {
				return nil, fmt.Errorf("%s:%d: unexpected character %q", path, lineOf(i), body[i])
			}
			word := body[i:j]
			i = j
			// is it "name :" (a new left-hand side)?
			k := i
			for k < n && (body[k] == ' ' || body[k] == '\t' || body[k] == '\n' || body[k] == '\r') {
				k++
			}
			if k < n && body[k] == ':' {
				flush() // a rule may end without ';'
				lhs = word
				cur = &yRule{LHS: lhs, Line: lineOf(i)}
				i = k + 1
				continue
			}
			if cur == nil {
				return nil, fmt.Errorf("%s:%d: symbol %s outside a rule", path, lineOf(i), word)
			}
			if cur.HasAct {
				return nil, fmt.Errorf("%s:%d: symbol after action (mid-rule action)", path, lineOf(i))
			}
			cur.RHS = append(cur.RHS, word)
			if word == "error" {
				cur.HasError = true
			}
		}
	}
	flush()
	return g, nil
}
