package main

// Property drivers: which engines and which contracts serve which property.

var propBuilders = map[string]func(c *CheckCtx){}

func init() {
	propBuilders["C18"] = buildC18
	registerHarness("C18", "pkg/token", "c18_token_test.go", "TestVCReplayC18")
	registerHarness("C18", "pkg/position", "c18_position_test.go", "TestVCReplayC18")
}

func buildC18(c *CheckCtx) {
	c.Technique = "deductive: WP over go/ssa of Pool.Get/NewPool (both pools) against ghost-set contracts, discharged by z3"
	c.addFunctionUnits(func(con *Contract) bool {
		return hasProp(con, "C18") && (con.Pkg == modPath+"/pkg/token" || con.Pkg == modPath+"/pkg/position")
	})
	c.assume("distinct cells do not interfere (Go memory model); pool objects stay reachable while referenced (GC)")
}
