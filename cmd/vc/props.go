package main

// Property drivers: which engines and which contracts serve which property.

import (
	"context"
	"os/exec"
	"path/filepath"
	"strings"
	"time"
)

var propBuilders = map[string]func(c *CheckCtx){}

func init() {
	propBuilders["C18"] = buildC18
	propBuilders["C09"] = buildC09
	propBuilders["C13"] = buildC13
	propBuilders["C15"] = buildC15
	propBuilders["C12"] = buildC12
	propBuilders["C16"] = buildC16
	propBuilders["C11"] = buildC11
	propBuilders["C02"] = buildC02
	propBuilders["C05"] = buildC05
	propBuilders["C07"] = buildC07
	propBuilders["C10"] = buildC10
	registerHarness("C15", "pkg/visitor/printer", "c15_printer_test.go", "TestVCReplayC15")
	registerHarness("C12", "pkg/visitor/traverser", "c12_traverser_test.go", "TestVCReplayC12")
	registerHarness("C16", "pkg/visitor/dumper", "c16_dumper_test.go", "TestVCReplayC16")
	registerHarness("C09", "pkg/parser", "c09_parser_test.go", "TestVCReplayC09")
	registerHarness("C18", "pkg/token", "c18_token_test.go", "TestVCReplayC18")
	registerHarness("C18", "pkg/position", "c18_position_test.go", "TestVCReplayC18")
}

func buildC18(c *CheckCtx) {
	c.Technique = "deductive: WP over go/ssa of Pool.Get/NewPool (both pools) against ghost-set contracts, discharged by z3"
	c.addFunctionUnits(func(con *Contract) bool {
		// the pools themselves, and every constructor that creates one (NewPool's blockSize >= 1 at its call sites)
		return hasProp(con, "C18")
	})
	c.assume("distinct cells do not interfere (Go memory model); pool objects stay reachable while referenced (GC)")
}

func (c *CheckCtx) addInit(pkgs ...string) {
	for _, p := range pkgs {
		sp := c.W.SSAPkgs[modPath+"/"+p]
		if sp == nil {
			continue
		}
		if fn := sp.Func("init"); fn != nil {
			c.Reports = append(c.Reports, verifyFunction(c.W, fn, nil, []string{c.Prop}))
		}
	}
}

func (c *CheckCtx) addLemmas(pkgs ...string) {
	for _, p := range pkgs {
		if cf := c.W.CFiles[modPath+"/"+p]; cf != nil && len(cf.Lemmas) > 0 {
			c.Reports = append(c.Reports, verifyLemmas(c.W, modPath+"/"+p, []string{c.Prop}))
		}
	}
}

func buildC09(c *CheckCtx) {
	c.Technique = "deductive: WP over go/ssa of pkg/version, pkg/parser.Parse and the version-reading scanner helpers against contracts; class lemmas as pure SMT goals; read-site frame"
	c.addFunctionUnits(func(con *Contract) bool { return hasProp(con, "C09") })
	c.addInit("pkg/version", "pkg/parser")
	c.addLemmas("pkg/version")
	c.addFrames("C09")
	c.assume("strings.SplitN / strconv.ParseUint: assumed stdlib contracts (pure, fresh results); the numeric value of a version string is not re-derived")
}

func buildC13(c *CheckCtx) {
	c.Technique = "frame conditions (modifies clauses) per observer family, decided by an ownership/freshness dataflow over go/ssa of the whole call tree"
	c.addFrames("C13")
	c.forbiddenImports([]string{"unsafe", "reflect"})
	c.assume("a visitor of unknown dynamic type handed to the traverser is the caller's code (C13 speaks of a passive visitor)")
	c.assume("io.Writer.Write does not retain or modify the slice it is given")
	c.assume("determinism of each observer as a function of (tree, own fresh state) is argued in DESIGN §5 C13, not mechanised")
}

func buildC11(c *CheckCtx) {
	c.Technique = "confinement lemma: frame conditions over go/ssa (no write to package-level state or to memory reachable from it, all mutable state allocated inside the call, no concurrency or nondeterminism constructs)"
	c.addFrames("C11")
	c.forbiddenImports([]string{"unsafe", "reflect", "sync", "sync/atomic", "time", "math/rand", "os"})
	c.assume("Go memory model: goroutines that share no written location do not race; no schedule is explored (DESIGN §5 C11)")
	c.assume("cmd/php-parser (the CLI) is outside the library; its workers share only channels and read-only flags (read, not verified)")
}

func buildC15(c *CheckCtx) {
	c.Technique = "per-kind printer contracts: symbolic trace of each of the 155 printer methods over go/ssa (helpers by contract), compared against the slot set from go/types; order against the grammars by E-GRAM conserve obligations"
	kinds := astKinds(c.W)
	// order consistent with the grammar: every action of both grammars conserves the yield computed by the real printer
	// method (E-GRAM conserve); these obligations belong to C15 too ("in source order")
	runs := c.addGram(gramWant{Shape: true, Conserve: true})
	c.OrderByGrammar = map[string]bool{}
	for _, r := range runs {
		if r != nil && r.Res != nil {
			for k := range r.Res.KindsBuilt {
				c.OrderByGrammar[k] = true
			}
		}
	}
	c.checkPrinter(kinds)
	c.CoverageExtra["kinds"] = len(kinds)
	var notBuilt []string
	for _, k := range kinds {
		if !c.OrderByGrammar[k.Name] && !(k.Named != nil && c.OrderByGrammar[k.Named.Obj().Name()]) {
			notBuilt = append(notBuilt, k.Name)
		}
	}
	c.CoverageExtra["kinds_not_built_by_any_action"] = notBuilt
	// default lexemes against the terminals the grammars store in each slot
	c.checkDefaultLexemes(kinds, runs)
	c.assume("the trace extractor and comparison (E-TRACE normaliser) are part of the trusted base")
	c.assume("source order of a node's parts: decided by the grammar-side conserve obligations (the printed yield of a node equals the concatenation of the yields of the right-hand side, for every action of both grammars); the declared field order of the struct in pkg/ast/node.go is compared as well, but a kind whose fields are declared in another order is accepted when some action builds it (noted in the evidence)")
}

func buildC12(c *CheckCtx) {
	c.Technique = "per-kind traverser contracts: symbolic trace of each Traverser method and each Accept method over go/ssa, compared with the slot set (go/types) and the printer's child order"
	kinds := astKinds(c.W)
	sub := &CheckCtx{Prop: c.Prop, W: c.W, Assume: map[string]bool{}, Trusted: map[string]bool{}, CoverageExtra: map[string]interface{}{}}
	order := sub.checkPrinter(kinds) // only for the order oracle; its obligations belong to C15
	c.checkAccept(kinds)
	c.checkTraverser(kinds, order)
	c.CoverageExtra["kinds"] = len(kinds)
	c.assume("the inner visitor (t.v) is caller code; 'presented to the visitor' means n.Accept(t.v) is called")
	c.addGram(gramWant{Shape: true, Linear: true}) // no node or token object occupies two slots of a parsed tree
}

func buildC16(c *CheckCtx) {
	c.Technique = "per-kind dumper contracts: symbolic trace of each of the 155 Dumper methods over go/ssa (helpers by contract) compared with the struct fields from go/types"
	kinds := astKinds(c.W)
	c.checkDumper(kinds)
	c.CoverageExtra["kinds"] = len(kinds)
}


func buildC02(c *CheckCtx) {
	c.Level = "other"
	c.Technique = "per-production token-conservation contracts over the SSA of every grammar action (yield taken from the real printer's trace), printer helper contracts; composition by the argument of DESIGN Appendix A.1"
	runs := c.addGram(gramWant{Shape: true, Conserve: true, Linear: true})
	_ = runs
	c.checkDriverGlue()
	c.addScan() // L-tile: the text and offsets of the tokens the scanner hands out (same obligations as C04)
	kinds := astKinds(c.W)
	c.checkPrinter(kinds) // P-order: the layout the conservation obligations use is what every path of the printer emits
	c.addFunctionUnits(func(con *Contract) bool { return hasProp(con, "C02") })
	c.Explain = "Proved per run: (G-conserve) every action of both grammars leaves in $$ a value whose printed token sequence equals the concatenation of the token sequences of $1..$n, for every shape the non-terminal contracts allow; (P-order) every printer method emits each slot once in the order the conservation obligations use, helpers pinned; (R-end) rule 1 stores the end token. Not covered by this check: gap-freedom of L-tile (C04's bounded stand-in), the LR driver's shift/reduce decisions (its code is verified under C01/C06 by E-DRV; that a stack slot holds a value of its state's symbol is backed by the table lemma symbols-on-stack), and the precondition of printer.write at printToken's call sites (no '<?php ' / space insertion), which is a fact about adjacent token pairs."
	c.checkListLaws()
	c.assume("W-exact: printer.write appends exactly its argument unless (state is HTML and the chunk is not an open tag) or (last byte and first byte are both identifier bytes); that no two adjacent printed tokens of a parsed tree trigger these is NOT proved (two known counter-examples: a shebang line, '1and')")
}

func buildC05(c *CheckCtx) {
	c.Technique = "SMT: for every grammar action and every node it creates or completes, Position == span of the node's own yield (builder semantics read off the trace of the real builder functions; helper functions under WP contracts); non-terminal contracts inferred and re-checked"
	c.addGram(gramWant{Shape: true, Pos: true})
	runs := map[string]*gramRun{}
	_ = runs
	for _, name := range []string{"php7"} {
		if gp, err := loadGramParser(c.W, name); err == nil {
			newGramCtx(c.W, gp).builderObligations(c)
		}
	}
	c.addFunctionUnits(func(con *Contract) bool { return hasProp(con, "C05") })
	c.assume("nesting and sibling order follow from pos + conserve + token order (DESIGN Appendix A.2), not re-proved per run")
	c.assume("token positions are what the lexer recorded (C04)")
}

func buildC07(c *CheckCtx) {
	c.Level = "other"
	c.Technique = "sub-sequence form of the token-conservation contracts over every grammar action incl. error productions, linear use of nodes and tokens, no stale $$"
	c.addGram(gramWant{Shape: true, Sub: true, Linear: true})
	c.checkDriverGlue()
	c.addFunctionUnits(func(con *Contract) bool {
		return (con.Pkg == modPath+"/internal/php7" || con.Pkg == modPath+"/internal/php5") && con.Key == "(*Parser).Error"
	})
	c.Explain = "Covers the second sentence of C07 (recovery never invents, duplicates or reorders text): every action's result prints a sub-sequence of the tokens of its right-hand side, each token object at most once; error productions and actions that report an error may drop tokens but not add any; an action never returns a stale stack slot; the glue between scanner and driver hands the scanner's tokens through unchanged (Parser.Lex pinned by exact trace, Parser.Error writes nothing). The first sentence (which statements survive recovery) is behaviour of the LALR tables under error recovery and is not decided."
}

func buildC10(c *CheckCtx) {
	c.Level = "other"
	c.Technique = "relational: productions shared by the two grammars are executed symbolically under the same contracts and their results compared; all other productions satisfy the same conserve/pos/leaf/linear contracts"
	runs := c.addGram(gramWant{Shape: true, Conserve: true, Linear: true, Pos: true, Leaf: true})
	c.gramPairs(runs)
	c.Explain = "Covers: (a) every production with identical left- and right-hand side in both grammars builds the same result (kinds, slots, values, position builder and its arguments) on every path; (b) both grammars satisfy the same conservation, position, leaf and linearity contracts, so for any program on which both derive the same structure, tokens, free-floating content and positions coincide. Not decided: that the two LALR tables derive the same structure on the shared syntax."
}

func init() {
	propBuilders["C01"] = buildC01
	propBuilders["C06"] = buildC06
	propBuilders["C04"] = buildC04
}

// checkDriverGlue: the hand-written glue between scanner and LR driver is pinned by exact-trace contracts.
func (c *CheckCtx) checkDriverGlue() {
	for _, pk := range []string{"internal/php7", "internal/php5"} {
		f := loadFamily(c.W, modPath+"/"+pk, "(*Parser)")
		c.checkHelpers(f, pk+".(*Parser)")
	}
}

func (c *CheckCtx) boundN() string {
	if c.Tier == "thorough" {
		return "3"
	}
	return "2"
}

func buildC01(c *CheckCtx) {
	c.Level = "other"
	c.Technique = "no-panic / termination / frame contracts: WP over go/ssa for the scanner helpers, pools, position builder, parser wrappers; Floyd/Houdini invariants over the generated scanner machine proved inductive per run (E-SCAN); Floyd/Houdini invariants over the generated LR driver of both grammars with table facts decided by exhaustive evaluation (E-DRV); shape obligations for every grammar action; buffer frame by ownership dataflow; bounded stand-in for progress"
	c.addFunctionUnits(func(con *Contract) bool { return hasProp(con, "C01") })
	c.addGram(gramWant{Shape: true})
	c.addFrames("C01")
	c.addScan()
	c.addDrv("php7")
	c.addDrv("php5")
	c.runBoundedHarness("pkg/parser", "c01_bounded_test.go", "TestVCBoundedC01", []string{"VC_BOUND=" + c.boundN()},
		"real parser.Parse on prefix·w for 17 mode-setting prefixes and every w over a 27-byte alphabet with |w| <= "+c.boundN()+", 3 version classes, with and without callback, 400 ms watchdog", "panic", "hang", "buffer")
	c.Explain = "Proved per run (for all inputs): index/slice/nil/type-assertion safety, loop variants and frames of the scanner's helper functions (look-ahead predicates, call/ret/growCallStack, unget, token and position pools, NewLines), of the position builder, of the parser wrappers (NewLexer, NewParser, Parser.Lex/Error, parser.Parse) - each against its contract, with the helper preconditions as obligations at their verified call sites; for all 1014 grammar actions: every type assertion succeeds, no nil dereference, the optional callback is never called when nil, no stale $$ (under the inferred non-terminal contracts); the input buffer and the version are never written (frame over Parse's whole call tree). The generated scanner machine Lex is verified as generated (E-SCAN): cut-point invariants are inferred from the template in the contract file and proved inductive on every cut-to-cut path in this run; from them every index/slice expression and helper precondition inside Lex and the preservation of the representation invariant lexinv are discharged, except the obligations listed as unproved_withdrawn (facts about the automaton's language) and the known findings. The goyacc LR driver (*yyParserImpl).Parse of both grammar packages is verified as generated (E-DRV): cut-point invariants inferred from the template in the contract file and proved inductive in this run; every index into the stack and the parse tables, the exception-table loops, stack growth and the preconditions of Parser.Lex/Error are discharged from them and from range facts about the tables (decided by exhaustive evaluation of the arrays as they stand); the action regions are abstracted by their frame, checked on their code. Assumed and listed: the LR stack discipline at reductions (backed by the table lemma lr-depth). NOT proved: progress/termination of Lex and of the LR driver loop - for these a bounded stand-in runs the real parser exhaustively over a stated family of short inputs; it is labelled bounded and not counted."
}

func buildC06(c *CheckCtx) {
	c.Level = "other"
	c.Technique = "contracts on the error paths (WP over go/ssa): nil-safe optional callback at every error site, message and position of lexer and parser errors; error accounting of the generated LR driver by Floyd/Houdini invariants (E-DRV); callback non-interference by frame; bounded stand-in on the real parser for in-range positions, lines, order and callback independence"
	c.addFunctionUnits(func(con *Contract) bool { return hasProp(con, "C06") })
	c.addGram(gramWant{Shape: true})
	c.addFrames("C06")
	c.addDrv("php7")
	c.addDrv("php5")
	c.runBoundedHarness("pkg/parser", "c01_bounded_test.go", "TestVCBoundedC01", []string{"VC_BOUND=" + c.boundN()},
		"real parser.Parse on prefix·w for 17 mode-setting prefixes and every w over a 27-byte alphabet with |w| <= "+c.boundN()+", 3 version classes, with and without callback", "callback-changes-tree", "error-empty-message", "error-position-range", "error-line", "error-order")
	c.Explain = "Proved per run: every site that reports an error (Lexer.error, Parser.Error in both parser packages, php5's reportError and the grammar actions that call it) tests the optional callback for nil first and calls it exactly once otherwise; a lexer error carries the given non-empty message, the offsets ts..te of the scanner window and the lines NewLines.GetLine gives for them (GetLine verified against its sorted-array specification); a parser error forwards the driver's message with the position of the look-ahead token; parser.Parse hands the callback unchanged to lexer and parser; the root is stored only by rule 1. The LR driver of both grammar packages, verified as generated (E-DRV): it returns 0 or 1, and 1 only after at least one call of Parser.Error (ghost count of Error calls == Nerrs at every cut point; Errflag in 0..3; Errflag > 0 implies Nerrs > 0); its calls of Parser.Error/Lex meet their preconditions; the Parser.Parse wrapper discharges the driver's precondition. NOT decided: that every invalid input makes the tables enter the error branch and that accept is reached only through rule 1 (language-level facts about the LALR tables); order of errors and callback-independence of the tree are only covered by the bounded stand-in."
	c.assume("the error callback is passive caller code")
}

func buildC04(c *CheckCtx) {
	c.Level = "other"
	c.Technique = "contracts (WP over go/ssa) on the functions that give tokens their text, offsets and lines; E-SCAN obligations over the generated scanner machine; leaf-value obligations for every grammar action; pools; bounded stand-in on the real lexer for tiling and lines"
	c.addFunctionUnits(func(con *Contract) bool { return hasProp(con, "C04") })
	c.addGram(gramWant{Shape: true, Leaf: true})
	c.addScan()
	c.runBoundedHarness("internal/scanner", "c04_tokens_test.go", "TestVCBoundedC04", []string{"VC_BOUND=" + c.boundN()},
		"real lexer on prefix·w for 22 mode-setting prefixes and every w over a 30-byte alphabet with |w| <= "+c.boundN()+", versions 7.2 and 7.4: every token and free-floating token has Value == source[start:end], offsets in range, increasing and without overlap, correct 1-based lines (LF, CRLF, lone CR), and full coverage when no lexer error was reported",
		"token-no-position", "token-range", "token-text", "token-overlap", "token-gap", "token-line")
	c.Explain = "Proved per run: setTokenPosition gives a token the offsets ts..te and the lines GetLine yields for ts and te-1; addFreeFloatingToken appends exactly one fresh token with the given id, Value = data[ps:pe] and that position; NewLines.Append keeps the line-start table strictly increasing and GetLine returns the 1-based line of an offset against it; ungetCnt/ungetStr shrink p and te together and never below ts; pools hand out distinct cells (C18); for every grammar action a leaf node's Value is the Value of a token stored in that node (concatenations in token order). Over the generated machine Lex (E-SCAN, invariants inferred and proved inductive in this run): Value == data[ts:te] and position == (ts, te) at every return, ps == ts and pe == te at every addFreeFloatingToken call. NOT proved by contracts: tiling without gaps, the new_line action recording every line start, classification of trivia - covered by the bounded stand-in on the real lexer (labelled bounded)."
}

func init() { propBuilders["C14"] = buildC14 }

func buildC14(c *CheckCtx) {
	c.Technique = "per-kind resolver table over symbolic traces (E-TRACE) + WP contracts on the alias table functions against a specification transcribed from PHP's name-resolution rules"
	kinds := astKinds(c.W)
	c.checkResolverTable(kinds)
	c.addFunctionUnits(func(con *Contract) bool { return hasProp(con, "C14") })
	c.addFrames("C14")
}

// checkListLaws: the three laws about separated lists that E-GRAM's yield comparison relies on (DESIGN Appendix B) are
// stated and proved in lean/Interleave.lean. In the thorough tier the file is re-checked with the installed Lean; in the
// quick tier (and when Lean is not available) they are listed as an assumption with a pointer to the file.
func (c *CheckCtx) checkListLaws() {
	file := filepath.Join(verifDir, "lean", "Interleave.lean")
	if c.Tier == "thorough" {
		if path, err := exec.LookPath("lean"); err == nil {
			ctx, cancel := context.WithTimeout(context.Background(), 5*time.Minute)
			defer cancel()
			out, err := exec.CommandContext(ctx, path, file).CombinedOutput()
			if err == nil && !strings.Contains(string(out), "error") && !strings.Contains(string(out), "sorry") {
				c.Tables = append(c.Tables, "list laws B1-B3 (DESIGN Appendix B): machine-checked in this run by Lean 4 (lean/Interleave.lean, no sorry)")
				return
			}
			c.addOb("lean/Interleave/list-laws", "table", file, false, "Lean rejected lean/Interleave.lean: "+truncate(string(out), 400))
			return
		}
	}
	c.assume("list laws B1-B3 of separated lists (DESIGN Appendix B): proved in lean/Interleave.lean (Lean 4, checked in the thorough tier); the quick tier relies on that file")
}
