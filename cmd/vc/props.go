package main

// Property drivers: which engines and which contracts serve which property.

var propBuilders = map[string]func(c *CheckCtx){}

func init() {
	propBuilders["C18"] = buildC18
	propBuilders["C09"] = buildC09
	registerHarness("C09", "pkg/parser", "c09_parser_test.go", "TestVCReplayC09")
	registerHarness("C18", "pkg/token", "c18_token_test.go", "TestVCReplayC18")
	registerHarness("C18", "pkg/position", "c18_position_test.go", "TestVCReplayC18")
}

func buildC18(c *CheckCtx) {
	c.Technique = "deductive: WP over go/ssa of Pool.Get/NewPool (both pools) against ghost-set contracts, discharged by z3"
	c.addFunctionUnits(func(con *Contract) bool {
		return hasProp(con, "C18") && (con.Pkg == modPath+"/pkg/token" || con.Pkg == modPath+"/pkg/position")
	})
	c.assume("distinct cells do not interfere (Go memory model); pool objects stay reachable while referenced (GC)")
}

func (c *CheckCtx) addInit(pkgs ...string) {
	for _, p := range pkgs {
		sp := c.W.SSAPkgs[modPath+"/"+p]
		if sp == nil {
			continue
		}
		if fn := sp.Func("init"); fn != nil {
			c.Reports = append(c.Reports, verifyFunction(c.W, fn, nil, []string{c.Prop}))
		}
	}
}

func (c *CheckCtx) addLemmas(pkgs ...string) {
	for _, p := range pkgs {
		if cf := c.W.CFiles[modPath+"/"+p]; cf != nil && len(cf.Lemmas) > 0 {
			c.Reports = append(c.Reports, verifyLemmas(c.W, modPath+"/"+p, []string{c.Prop}))
		}
	}
}

func buildC09(c *CheckCtx) {
	c.Technique = "deductive: WP over go/ssa of pkg/version, pkg/parser.Parse and the version-reading scanner helpers against contracts; class lemmas as pure SMT goals; read-site frame"
	c.addFunctionUnits(func(con *Contract) bool { return hasProp(con, "C09") })
	c.addInit("pkg/version", "pkg/parser")
	c.addLemmas("pkg/version")
	c.assume("strings.SplitN / strconv.ParseUint: assumed stdlib contracts (pure, fresh results); the numeric value of a version string is not re-derived")
}
