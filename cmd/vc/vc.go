package main

// E-VC: weakest-precondition style verification of one function against its contract.
// The function body is turned into a passive acyclic program: loops are cut at their
// headers by invariants, joins merge states with ite, every SSA value gets a defining
// equation. Obligations are emitted in program order into one incremental SMT script.

import (
	"fmt"
	"os"
	"go/token"
	"go/types"
	"sort"
	"strings"

	"golang.org/x/tools/go/ssa"
)

type frameCtx struct {
	curLoop *ssa.BasicBlock // header of the loop whose specification is being evaluated (scopes names of loop variables)
	fn      *ssa.Function
	env     map[ssa.Value]Val
	con     *Contract
	params  map[string]TV
	entry   *State // state at function entry (for old())
	loops   map[*ssa.BasicBlock]*loopInfo
	order   []*ssa.BasicBlock
	rets    []retInfo
	top     bool
	result  Val
	outSt   map[*ssa.BasicBlock]*State
	edgeC   map[[2]int]*Term
	loopOrd map[*ssa.BasicBlock]int
	pkgPath string // for contexts without fn (package invariants, lemmas)
	callArgs []TV  // at-call assertions: the actual arguments
}

type retInfo struct {
	st  *State
	val Val
}

type loopInfo struct {
	header *ssa.BasicBlock
	body   map[*ssa.BasicBlock]bool
	back   []*ssa.BasicBlock // sources of back edges
	ord    int
}

type TV struct {
	V Val
	T types.Type
}

// ---------------------------------------------------------------------------
// CFG helpers

func rpo(fn *ssa.Function) []*ssa.BasicBlock {
	seen := map[*ssa.BasicBlock]bool{}
	var post []*ssa.BasicBlock
	var dfs func(b *ssa.BasicBlock)
	dfs = func(b *ssa.BasicBlock) {
		seen[b] = true
		for _, s := range b.Succs {
			if !seen[s] {
				dfs(s)
			}
		}
		post = append(post, b)
	}
	dfs(fn.Blocks[0])
	for i, j := 0, len(post)-1; i < j; i, j = i+1, j-1 {
		post[i], post[j] = post[j], post[i]
	}
	return post
}

func findLoops(fn *ssa.Function) (map[*ssa.BasicBlock]*loopInfo, error) {
	loops := map[*ssa.BasicBlock]*loopInfo{}
	for _, b := range fn.Blocks {
		for _, s := range b.Succs {
			if s.Dominates(b) { // back edge b -> s
				li := loops[s]
				if li == nil {
					li = &loopInfo{header: s, body: map[*ssa.BasicBlock]bool{s: true}}
					loops[s] = li
				}
				li.back = append(li.back, b)
				// natural loop: nodes that reach b without passing s
				var stack []*ssa.BasicBlock
				if !li.body[b] {
					li.body[b] = true
					stack = append(stack, b)
				}
				for len(stack) > 0 {
					n := stack[len(stack)-1]
					stack = stack[:len(stack)-1]
					for _, p := range n.Preds {
						if !li.body[p] {
							li.body[p] = true
							stack = append(stack, p)
						}
					}
				}
			}
		}
	}
	// check reducibility: every retreating edge in RPO must be a back edge
	idx := map[*ssa.BasicBlock]int{}
	for i, b := range rpo(fn) {
		idx[b] = i
	}
	for _, b := range fn.Blocks {
		if _, ok := idx[b]; !ok {
			continue
		}
		for _, s := range b.Succs {
			if idx[s] <= idx[b] && !s.Dominates(b) {
				return nil, fmt.Errorf("irreducible control flow in %s", fn)
			}
		}
	}
	// ordinals in source order of header position (block index order)
	var hs []*ssa.BasicBlock
	for h := range loops {
		hs = append(hs, h)
	}
	sort.Slice(hs, func(i, j int) bool { return hs[i].Index < hs[j].Index })
	for i, h := range hs {
		loops[h].ord = i
	}
	return loops, nil
}

// ---------------------------------------------------------------------------
// write keys (syntactic over-approximation of the heap arrays a function may store to)

func keysForType(t types.Type, base string, out map[string]bool) {
	if _, ok := t.Underlying().(*types.Array); ok {
		return
	}
	defer func() { recover() }()
	for _, c := range compsOf(t) {
		out[base+c.Suffix] = true
	}
}

func structKeys(t types.Type, out map[string]bool) {
	st, ok := isStruct(t)
	if !ok {
		return
	}
	for i := 0; i < st.NumFields(); i++ {
		ft := st.Field(i).Type()
		if _, ok := isStruct(ft); ok {
			structKeys(ft, out)
			continue
		}
		keysForType(ft, fieldKey(t, st, i), out)
	}
}

func (w *World) writeKeys(fn *ssa.Function) map[string]bool {
	w.mu.Lock()
	defer w.mu.Unlock()
	return w.writeKeysLocked(fn)
}

func (w *World) writeKeysLocked(fn *ssa.Function) map[string]bool {
	if ks, ok := w.wkCache[fn]; ok {
		return ks
	}
	out := map[string]bool{}
	w.wkCache[fn] = out // recursion guard
	if fn.Blocks == nil || !strings.HasPrefix(funcPkgPath(fn), modPath) {
		// standard-library callees are assumed not to write memory visible to the library
		// (pure / no retention: DESIGN §4.1); they are listed per call in the evidence
		return out
	}
	if c := w.contractFor(fn); c != nil {
		for _, g := range c.GhostRet {
			w.ghostKeys(fn, g.Loc, out)
		}
	}
	for _, b := range fn.Blocks {
		w.blockWriteKeys(b, out)
	}
	return out
}

func (w *World) ghostKeys(fn *ssa.Function, loc *CExpr, out map[string]bool) {
	// loc is x.f where f is a ghost field of x's struct type: resolve by name over all ghost decls
	if loc.Kind != "sel" {
		return
	}
	if cf := w.CFiles[funcPkgPath(fn)]; cf != nil {
		found := false
		for _, g := range cf.Ghosts {
			if g.Name == loc.Name {
				out["F:"+shortPkg(cf.Pkg)+"."+g.Type+"."+g.Name] = true
				found = true
			}
		}
		if found {
			return
		}
	}
	for _, cf := range w.CFiles {
		for _, g := range cf.Ghosts {
			if g.Name == loc.Name {
				out["F:"+shortPkg(cf.Pkg)+"."+g.Type+"."+g.Name] = true
			}
		}
	}
}

func (w *World) blockWriteKeys(b *ssa.BasicBlock, out map[string]bool) {
	for _, in := range b.Instrs {
		switch i := in.(type) {
		case *ssa.Store:
			w.addrKeys(i.Addr, out)
		case *ssa.MapUpdate:
			mapWriteKeys(i.Map.Type(), out)
		case ssa.CallInstruction:
			cc := i.Common()
			if bi, ok := cc.Value.(*ssa.Builtin); ok {
				switch bi.Name() {
				case "append", "copy":
					if sl, ok := cc.Args[0].Type().Underlying().(*types.Slice); ok {
						if _, isS := isStruct(sl.Elem()); isS {
							structKeys(sl.Elem(), out)
						} else {
							keysForType(sl.Elem(), elemKey(sl.Elem()), out)
						}
					}
				case "delete":
					mapWriteKeys(cc.Args[0].Type(), out)
				}
				continue
			}
			if !cc.IsInvoke() && cc.StaticCallee() == nil {
				// call through a function value (the error callback): ghost event counters
				out["G:ghost.cbcount"] = true
				out["G:ghost.cbarg"] = true
			}
			for _, callee := range w.calleesOf(cc) {
				for k := range w.writeKeysLocked(callee) {
					out[k] = true
				}
			}
		}
	}
}

func mapWriteKeys(t types.Type, out map[string]bool) {
	mt, ok := t.Underlying().(*types.Map)
	if !ok {
		return
	}
	out[mapKeyOf(t)+".has"] = true
	defer func() { recover() }()
	for _, c := range compsOf(mt.Elem()) {
		out[mapKeyOf(t)+".val"+c.Suffix] = true
	}
}

func (w *World) addrKeys(addr ssa.Value, out map[string]bool) {
	pt, ok := addr.Type().Underlying().(*types.Pointer)
	if !ok {
		out["?unknown"] = true
		return
	}
	if _, isS := isStruct(pt.Elem()); isS {
		structKeys(pt.Elem(), out)
		return
	}
	switch a := addr.(type) {
	case *ssa.FieldAddr:
		bt := a.X.Type().Underlying().(*types.Pointer).Elem()
		st, _ := isStruct(bt)
		keysForType(st.Field(a.Field).Type(), fieldKey(bt, st, a.Field), out)
	case *ssa.IndexAddr:
		keysForType(pt.Elem(), elemKey(pt.Elem()), out)
	case *ssa.Alloc:
		keysForType(pt.Elem(), cellKey(pt.Elem()), out)
	case *ssa.Global:
		keysForType(pt.Elem(), "G:"+shortPkg(a.Pkg.Pkg.Path())+"."+a.Name(), out)
	case *ssa.FreeVar:
		// captured local of the enclosing function: a cell
		keysForType(pt.Elem(), cellKey(pt.Elem()), out)
	case *ssa.Phi:
		if out["!visiting:"+a.Name()] {
			return
		}
		out["!visiting:"+a.Name()] = true
		for _, e := range a.Edges {
			w.addrKeys(e, out)
		}
		delete(out, "!visiting:"+a.Name())
	default:
		if os.Getenv("VC_DEBUG_WK") != "" {
			fmt.Fprintf(os.Stderr, "unknown store address %s (%T) in %s\n", addr, addr, addr.Parent())
		}
		// store through a pointer of unknown origin: could be a cell, a field or an element
		out["?ptr:"+typeName(pt.Elem())] = true
		keysForType(pt.Elem(), cellKey(pt.Elem()), out)
		keysForType(pt.Elem(), elemKey(pt.Elem()), out)
	}
}

// calleesOf resolves a call to module functions (static, or by class hierarchy for invokes).
func (w *World) calleesOf(cc *ssa.CallCommon) []*ssa.Function {
	if cc.IsInvoke() {
		var out []*ssa.Function
		for fn := range w.allFuncs {
			if fn.Signature.Recv() == nil || fn.Name() != cc.Method.Name() || fn.Blocks == nil {
				continue
			}
			if !strings.HasPrefix(funcPkgPath(fn), modPath) {
				continue
			}
			if types.Implements(fn.Signature.Recv().Type(), cc.Value.Type().Underlying().(*types.Interface)) {
				out = append(out, fn)
			}
		}
		sort.Slice(out, func(i, j int) bool { return out[i].String() < out[j].String() })
		return out
	}
	if fn := cc.StaticCallee(); fn != nil {
		return []*ssa.Function{fn}
	}
	return nil // dynamic function value: caller code
}

// ---------------------------------------------------------------------------
// function execution

type execResult struct {
	rets []retInfo
}

// runFunction symbolically executes fn from state st with the given arguments.
// For the top-level function (top=true) loop and postcondition obligations are emitted.
func (x *Exec) runFunction(fn *ssa.Function, st *State, args []Val, con *Contract, top bool) *frameCtx {
	if fn.Blocks == nil {
		oos("function %s has no body", fn)
	}
	loops, err := findLoops(fn)
	if err != nil {
		oos("%v", err)
	}
	fc := &frameCtx{fn: fn, env: map[ssa.Value]Val{}, con: con, params: map[string]TV{}, loops: loops, top: top,
		outSt: map[*ssa.BasicBlock]*State{}, edgeC: map[[2]int]*Term{}}
	for i, p := range fn.Params {
		fc.env[p] = args[i]
		fc.params[p.Name()] = TV{args[i], p.Type()}
	}
	fc.entry = st.clone()
	order := rpo(fn)
	inSt := map[*ssa.BasicBlock]*State{fn.Blocks[0]: st}
	for _, b := range order {
		var cur *State
		if b == fn.Blocks[0] && len(b.Preds) == 0 {
			cur = inSt[b]
		} else {
			cur = x.mergeInto(fc, b)
			if cur == nil {
				continue // unreachable (all preds unreachable)
			}
		}
		if li := loops[b]; li != nil {
			cur = x.enterLoop(fc, li, cur)
		}
		x.execBlock(fc, b, cur)
	}
	return fc
}

// mergeInto computes the entry state of b from its forward predecessors and binds phis.
func (x *Exec) mergeInto(fc *frameCtx, b *ssa.BasicBlock) *State {
	type inc struct {
		pred  *ssa.BasicBlock
		pidx  int
		st    *State
		guard *Term
	}
	var ins []inc
	for pi, p := range b.Preds {
		if li := fc.loops[b]; li != nil && li.body[p] && b.Dominates(p) {
			continue // back edge
		}
		ps := fc.outSt[p]
		if ps == nil {
			continue
		}
		g := tAnd(ps.Guard, fc.edgeC[[2]int{p.Index, b.Index}])
		if g.isFalse() {
			continue
		}
		ins = append(ins, inc{p, pi, ps, g})
	}
	if len(ins) == 0 {
		return nil
	}
	if len(ins) == 1 {
		ns := ins[0].st.clone()
		ns.Guard = x.Sc.Define("g_"+blockName(fc.fn, b), ins[0].guard)
		for _, in := range b.Instrs {
			phi, ok := in.(*ssa.Phi)
			if !ok {
				break
			}
			fc.env[phi] = x.operand(fc, phi.Edges[ins[0].pidx], phi.Type())
		}
		return ns
	}
	ns := &State{Heap: map[string]*Term{}}
	var gs []*Term
	for _, in := range ins {
		gs = append(gs, in.guard)
	}
	ns.Guard = x.Sc.Define("g_"+blockName(fc.fn, b), tOr(gs...))
	// heap: union of keys
	keys := map[string]bool{}
	for _, in := range ins {
		for k := range in.st.Heap {
			keys[k] = true
		}
	}
	for _, k := range sortedKeys(keys) {
		var acc *Term
		for i := len(ins) - 1; i >= 0; i-- {
			h, ok := ins[i].st.Heap[k]
			if !ok {
				h = x.init[k]
				if h == nil {
					panic("heap key without init: " + k)
				}
			}
			if acc == nil {
				acc = h
			} else {
				acc = tIte(ins[i].guard, h, acc)
			}
		}
		ns.Heap[k] = x.Sc.Define("Hm_"+sanitize(k), acc)
	}
	var acc *Term
	for i := len(ins) - 1; i >= 0; i-- {
		if acc == nil {
			acc = ins[i].st.Alloc
		} else {
			acc = tIte(ins[i].guard, ins[i].st.Alloc, acc)
		}
	}
	ns.Alloc = x.Sc.Define("alloc", acc)
	// phis
	for _, in := range b.Instrs {
		phi, ok := in.(*ssa.Phi)
		if !ok {
			break
		}
		var vals []Val
		for _, i := range ins {
			vals = append(vals, x.operand(fc, phi.Edges[i.pidx], phi.Type()))
		}
		fc.env[phi] = x.mergeVals(phi.Name(), phi.Type(), gs, vals)
	}
	return ns
}

func (x *Exec) mergeVals(name string, t types.Type, gs []*Term, vals []Val) Val {
	if _, ok := vals[0].(PtrV); ok {
		// all must be identical pointers
		for _, v := range vals[1:] {
			if fmt.Sprint(v) != fmt.Sprint(vals[0]) {
				oos("phi of distinct non-struct pointers")
			}
		}
		return vals[0]
	}
	if sv, ok := vals[0].(StructV); ok {
		out := StructV{T: sv.T}
		for f := range sv.Fields {
			var fv []Val
			for _, v := range vals {
				fv = append(fv, v.(StructV).Fields[f])
			}
			out.Fields = append(out.Fields, x.mergeVals(name, sv.T.Field(f).Type(), gs, fv))
		}
		return out
	}
	if tv, ok := vals[0].(TupleV); ok {
		out := make(TupleV, len(tv))
		tt := t.(*types.Tuple)
		for f := range tv {
			var fv []Val
			for _, v := range vals {
				fv = append(fv, v.(TupleV)[f])
			}
			out[f] = x.mergeVals(name, tt.At(f).Type(), gs, fv)
		}
		return out
	}
	flat := make([][]*Term, len(vals))
	for i, v := range vals {
		flat[i] = flatten(x.coerce(v, t))
	}
	res := make([]*Term, len(flat[0]))
	for c := range res {
		var acc *Term
		for i := len(vals) - 1; i >= 0; i-- {
			if acc == nil {
				acc = flat[i][c]
			} else {
				acc = tIte(gs[i], flat[i][c], acc)
			}
		}
		res[c] = x.Sc.Define(name, acc)
	}
	return unflatten(t, res)
}

func blockName(fn *ssa.Function, b *ssa.BasicBlock) string {
	return fmt.Sprintf("b%d", b.Index)
}

// enterLoop: check invariants on entry, havoc what the loop may modify, assume invariants.
func (x *Exec) enterLoop(fc *frameCtx, li *loopInfo, in *State) *State {
	var spec *LoopSpec
	if fc.con != nil {
		spec = fc.con.Loops[li.ord]
	}
	if spec == nil {
		if !fc.top {
			oos("loop %d of inlined %s has no invariant", li.ord, fc.fn)
		}
		spec = &LoopSpec{}
		x.Sc.Comment(fmt.Sprintf("loop %d has no invariant (true)", li.ord))
	}
	b := li.header
	fc.curLoop = b
	defer func() { fc.curLoop = nil }()
	// 1. inv-init with phis bound to forward values (already bound by mergeInto)
	if fc.top {
		for k, inv := range spec.Invariants {
			t := x.evalBool(fc, in, inv, nil)
			x.oblige(in, fmt.Sprintf("inv-init:%d.%d", li.ord, k), inv.String(), b.Instrs[0].Pos(), t, nil)
		}
	}
	// 2. havoc
	ns := in.clone()
	wk := map[string]bool{}
	x.W.mu.Lock()
	for blk := range li.body {
		x.W.blockWriteKeys(blk, wk)
	}
	x.W.mu.Unlock()
	for _, k := range sortedKeys(wk) {
		if strings.HasPrefix(k, "?") {
			oos("loop writes through unknown pointer")
		}
		if old, ok := x.lookupHeap(in, k); ok {
			ns.Heap[k] = x.Sc.Fresh("Hl_"+sanitize(k), old.sort)
		}
		// keys never touched so far will get their init constant lazily; since the loop may
		// write them we must not let them alias the initial heap:
		if _, ok := x.lookupHeap(in, k); !ok {
			x.pendingHavoc(ns, k)
		}
	}
	ns.Alloc = x.Sc.Fresh("alloc_l", SInt)
	x.Sc.Assert(tImp(ns.Guard, tGe(ns.Alloc, in.Alloc)))
	for _, inst := range b.Instrs {
		phi, ok := inst.(*ssa.Phi)
		if !ok {
			break
		}
		fc.env[phi] = x.freshVal(ns, phi.Name()+"_"+phi.Comment, phi.Type())
	}
	// 3. assume invariants
	for _, inv := range spec.Invariants {
		t := x.evalBool(fc, ns, inv, nil)
		x.Sc.Assert(tImp(ns.Guard, t))
	}
	if spec.Decreases != nil {
		v := x.evalInt(fc, ns, spec.Decreases, nil)
		li2 := li
		_ = li2
		fc.loopVariant(li, x.Sc.Define("variant", v))
	}
	return ns
}

var variants = map[*loopInfo]*Term{}

func (fc *frameCtx) loopVariant(li *loopInfo, v *Term) { variants[li] = v }

func (x *Exec) lookupHeap(s *State, k string) (*Term, bool) {
	if t, ok := s.Heap[k]; ok {
		return t, true
	}
	if t, ok := x.init[k]; ok {
		return t, true
	}
	return nil, false
}

// pendingHavoc marks a key as havoced although its sort is not known yet; resolved at first access.
func (x *Exec) pendingHavoc(s *State, k string) {
	if srt, ok := keySorts[k]; ok {
		x.heapGet(s, k, srt) // declares the initial array, so that merges can refer to it
		s.Heap[k] = x.Sc.Fresh("Hl_"+sanitize(k), srt)
		return
	}
	if strings.HasPrefix(k, "C:") {
		delete(s.Heap, k) // cell of a local not yet allocated: nothing to havoc
		return
	}
	oos("loop writes heap key %s whose sort is not known before the loop", k)
}

// backEdge: invariant preservation and variant decrease.
func (x *Exec) backEdge(fc *frameCtx, li *loopInfo, from *ssa.BasicBlock, st *State) {
	if !fc.top {
		return
	}
	var spec *LoopSpec
	if fc.con != nil {
		spec = fc.con.Loops[li.ord]
	}
	if spec == nil {
		return
	}
	b := li.header
	fc.curLoop = b
	defer func() { fc.curLoop = nil }()
	// bind phis to back-edge values in a scratch env overlay
	pidx := -1
	for i, p := range b.Preds {
		if p == from {
			pidx = i
		}
	}
	saved := map[ssa.Value]Val{}
	var phis []*ssa.Phi
	for _, inst := range b.Instrs {
		phi, ok := inst.(*ssa.Phi)
		if !ok {
			break
		}
		phis = append(phis, phi)
	}
	newVals := make([]Val, len(phis))
	for i, phi := range phis {
		newVals[i] = x.operand(fc, phi.Edges[pidx], phi.Type())
	}
	for i, phi := range phis {
		saved[phi] = fc.env[phi]
		fc.env[phi] = newVals[i]
	}
	for k, inv := range spec.Invariants {
		t := x.evalBool(fc, st, inv, nil)
		x.oblige(st, fmt.Sprintf("inv-pres:%d.%d", li.ord, k), inv.String(), from.Instrs[len(from.Instrs)-1].Pos(), t, nil)
	}
	if spec.Decreases != nil {
		nv := x.evalInt(fc, st, spec.Decreases, nil)
		ov := variants[li]
		x.oblige(st, fmt.Sprintf("dec:%d", li.ord), spec.Decreases.String(), from.Instrs[len(from.Instrs)-1].Pos(), tAnd(tLt(nv, ov), tGe(ov, mkInt(0))), nil)
	}
	for _, phi := range phis {
		fc.env[phi] = saved[phi]
	}
}

func (x *Exec) operand(fc *frameCtx, v ssa.Value, want types.Type) Val {
	switch c := v.(type) {
	case *ssa.Const:
		if c.Value == nil && want != nil {
			return x.zeroVal(want)
		}
		return x.constVal(c)
	case *ssa.Function:
		return mkInt(int64(x.W.typeID(types.NewPointer(c.Signature)) + 1000000 + len(c.String())))
	case *ssa.Global:
		return x.globalPtr(c)
	case *ssa.Builtin:
		oos("builtin as value")
	}
	val, ok := fc.env[v]
	if !ok && x.lazyEnv != nil {
		val = x.lazyEnv(v)
		fc.env[v] = val
		ok = true
	}
	if !ok {
		oos("use of undefined SSA value %s (%T) in %s", v.Name(), v, fc.fn)
	}
	return val
}

// globals: each package-level variable is a cell (or a struct object) at a fixed symbolic ref.
func (x *Exec) globalPtr(g *ssa.Global) Val {
	t := g.Type().(*types.Pointer).Elem()
	name := "G_" + sanitize(shortPkg(g.Pkg.Pkg.Path())+"."+g.Name())
	ref := x.Sc.Declare(name, SInt)
	key := "globalref:" + name
	if !x.Assumed[key] {
		x.Assumed[key] = true
		x.Sc.AssertTop(tAnd(tLt(mkInt(0), ref), tLt(ref, x.allocInit())))
	}
	if _, ok := isStruct(t); ok {
		return ref
	}
	if _, ok := t.Underlying().(*types.Array); ok {
		return PtrV{Kind: "array", Key: elemKey(t.Underlying().(*types.Array).Elem()), Ref: ref, T: t}
	}
	return PtrV{Kind: "cell", Key: "G:" + shortPkg(g.Pkg.Pkg.Path()) + "." + g.Name(), Ref: mkInt(0), T: t}
}

func (x *Exec) allocInit() *Term { return x.Sc.Declare("alloc0", SInt) }

func (x *Exec) execBlock(fc *frameCtx, b *ssa.BasicBlock, st *State) {
	for _, in := range b.Instrs {
		if _, ok := in.(*ssa.Phi); ok {
			continue
		}
		x.execInstr(fc, b, st, in)
		if x.afterInstr != nil {
			x.afterInstr(fc, st, in)
		}
		if st.Guard.isFalse() {
			break
		}
	}
	fc.outSt[b] = st
	// terminator
	last := b.Instrs[len(b.Instrs)-1]
	switch t := last.(type) {
	case *ssa.If:
		c := x.operand(fc, t.Cond, nil).(*Term)
		fc.edgeC[[2]int{b.Index, b.Succs[0].Index}] = c
		fc.edgeC[[2]int{b.Index, b.Succs[1].Index}] = tNot(c)
		if b.Succs[0] == b.Succs[1] {
			fc.edgeC[[2]int{b.Index, b.Succs[0].Index}] = tTrue
		}
	case *ssa.Jump:
		fc.edgeC[[2]int{b.Index, b.Succs[0].Index}] = tTrue
	}
	for _, s := range b.Succs {
		if li := fc.loops[s]; li != nil && li.body[b] && s.Dominates(b) {
			es := st.clone()
			es.Guard = x.Sc.Define("g_back", tAnd(st.Guard, fc.edgeC[[2]int{b.Index, s.Index}]))
			x.backEdge(fc, li, b, es)
		}
	}
}

func (x *Exec) execInstr(fc *frameCtx, b *ssa.BasicBlock, st *State, in ssa.Instruction) {
	switch i := in.(type) {
	case *ssa.DebugRef:
	case *ssa.Alloc:
		if p, ok := x.skipAlloc[i]; ok {
			fc.env[i] = p
			x.storeLoc(st, p, x.zeroVal(p.T))
			return
		}
		if r, ok := x.skipStruct[i]; ok {
			fc.env[i] = r
			x.zeroStruct(st, r, i.Type().(*types.Pointer).Elem())
			return
		}
		fc.env[i] = x.newObject(st, i.Type().(*types.Pointer).Elem())
	case *ssa.FieldAddr:
		base := x.operand(fc, i.X, nil).(*Term)
		x.safety(st, "nil", i.Pos(), i, tNe(base, mkInt(0)))
		bt := i.X.Type().Underlying().(*types.Pointer).Elem()
		s, _ := isStruct(bt)
		ft := s.Field(i.Field).Type()
		if _, ok := isStruct(ft); ok {
			fc.env[i] = tAdd(base, mkInt(fieldOffset(s, i.Field)))
		} else if at, ok := ft.Underlying().(*types.Array); ok {
			if x.roTables == nil {
				oos("array-typed field %s", s.Field(i.Field).Name())
			}
			// the array occupies the refs from base+offset on (struct elements are laid out in place)
			if _, isS := isStruct(at.Elem()); !isS {
				oos("array-typed field %s of non-struct elements", s.Field(i.Field).Name())
			}
			fc.env[i] = PtrV{Kind: "array", Key: elemKey(at.Elem()), Ref: tAdd(base, mkInt(fieldOffset(s, i.Field))), T: ft}
		} else {
			fc.env[i] = PtrV{Kind: "field", Key: fieldKey(bt, s, i.Field), Ref: base, T: ft}
		}
	case *ssa.Field:
		sv := x.operand(fc, i.X, nil).(StructV)
		fc.env[i] = sv.Fields[i.Field]
	case *ssa.IndexAddr:
		idx := x.operand(fc, i.Index, nil).(*Term)
		switch xt := i.X.Type().Underlying().(type) {
		case *types.Slice:
			sv := x.operand(fc, i.X, xt).(SliceV)
			x.safety(st, "idx", i.Pos(), i, tAnd(tLe(mkInt(0), idx), tLt(idx, sv.Len)))
			fc.env[i] = x.elemPtr(sv, xt.Elem(), idx)
		case *types.Pointer:
			at := xt.Elem().Underlying().(*types.Array)
			if g, ok := i.X.(*ssa.Global); ok && x.roTables[g.Name()] {
				x.safety(st, "idx", i.Pos(), i, tAnd(tLe(mkInt(0), idx), tLt(idx, mkInt(at.Len()))))
				fc.env[i] = PtrV{Kind: "rotable", Key: "uf_" + g.Name(), Ref: mkInt(0), Idx: idx, T: at.Elem()}
				return
			}
			pv := x.operand(fc, i.X, nil).(PtrV)
			x.safety(st, "idx", i.Pos(), i, tAnd(tLe(mkInt(0), idx), tLt(idx, mkInt(at.Len()))))
			sv := SliceV{pv.Ref, mkInt(0), mkInt(at.Len()), mkInt(at.Len())}
			fc.env[i] = x.elemPtr(sv, at.Elem(), idx)
		default:
			oos("IndexAddr on %s", i.X.Type())
		}
	case *ssa.Index:
		idx := x.operand(fc, i.Index, nil).(*Term)
		if bt, ok := i.X.Type().Underlying().(*types.Basic); ok && bt.Info()&types.IsString != 0 {
			s := x.operand(fc, i.X, nil).(*Term)
			x.safety(st, "idx", i.Pos(), i, tAnd(tLe(mkInt(0), idx), tLt(idx, x.strLen(s))))
			v := x.Sc.Define(i.Name(), x.strByte(s, idx))
			x.Sc.Assert(tAnd(tLe(mkInt(0), v), tLe(v, mkInt(255))))
			fc.env[i] = v
		} else if at, ok := i.X.Type().Underlying().(*types.Array); ok {
			if _, isA := x.operand(fc, i.X, nil).(ArrayV); !isA {
				oos("Index on %s", i.X.Type())
			}
			x.safety(st, "idx", i.Pos(), i, tAnd(tLe(mkInt(0), idx), tLt(idx, mkInt(at.Len()))))
			fc.env[i] = x.freshVal(st, i.Name(), at.Elem())
		} else {
			oos("Index on %s", i.X.Type())
		}
	case *ssa.UnOp:
		x.execUnOp(fc, st, i)
	case *ssa.Store:
		addr := x.operand(fc, i.Addr, nil)
		vt := i.Addr.Type().Underlying().(*types.Pointer).Elem()
		val := x.operand(fc, i.Val, vt)
		switch a := addr.(type) {
		case PtrV:
			x.storeLoc(st, a, val)
		case *Term:
			x.safety(st, "nil", i.Pos(), i, tNe(a, mkInt(0)))
			x.storeStruct(st, a, vt, val.(StructV))
		}
	case *ssa.BinOp:
		fc.env[i] = x.execBinOp(fc, st, i)
	case *ssa.Call:
		fc.env[i] = x.execCall(fc, st, i)
	case *ssa.ChangeType:
		fc.env[i] = x.operand(fc, i.X, i.Type())
	case *ssa.Convert:
		fc.env[i] = x.execConvert(fc, st, i)
	case *ssa.ChangeInterface:
		fc.env[i] = x.operand(fc, i.X, i.Type())
	case *ssa.MakeInterface:
		v := x.operand(fc, i.X, nil)
		tag := mkInt(int64(x.W.typeID(i.X.Type())))
		var ref *Term
		switch vv := v.(type) {
		case *Term:
			if vv.sort == SBool {
				ref = tIte(vv, mkInt(1), mkInt(0))
			} else {
				ref = vv
			}
		default:
			ref = x.Sc.Fresh("boxed", SInt)
			x.Sc.Assert(tAnd(tLe(mkInt(0), ref), tLt(ref, st.Alloc)))
		}
		fc.env[i] = IfaceV{tag, ref}
	case *ssa.TypeAssert:
		x.execTypeAssert(fc, st, i)
	case *ssa.Extract:
		fc.env[i] = x.operand(fc, i.Tuple, nil).(TupleV)[i.Index]
	case *ssa.MakeSlice:
		ln := x.operand(fc, i.Len, nil).(*Term)
		cp := x.operand(fc, i.Cap, nil).(*Term)
		x.safety(st, "slice", i.Pos(), i, tAnd(tLe(mkInt(0), ln), tLe(ln, cp)))
		fc.env[i] = x.makeSlice(st, i.Type().Underlying().(*types.Slice).Elem(), ln, cp)
	case *ssa.Slice:
		x.execSlice(fc, st, i)
	case *ssa.Phi:
	case *ssa.If, *ssa.Jump:
	case *ssa.Return:
		var rv Val
		switch len(i.Results) {
		case 0:
		case 1:
			rv = x.operand(fc, i.Results[0], fc.fn.Signature.Results().At(0).Type())
		default:
			var tv TupleV
			for k, r := range i.Results {
				tv = append(tv, x.operand(fc, r, fc.fn.Signature.Results().At(k).Type()))
			}
			rv = tv
		}
		fc.rets = append(fc.rets, retInfo{st.clone(), rv})
	case *ssa.Panic:
		x.safety(st, "panic", i.Pos(), i, tFalse)
		st.Guard = tFalse
	case *ssa.MakeMap:
		ref := x.bump(st, mkInt(1))
		fc.env[i] = ref
		x.mapInit(st, i.Type(), ref)
	case *ssa.Lookup:
		x.execLookup(fc, st, i)
	case *ssa.MapUpdate:
		x.execMapUpdate(fc, st, i)
	case *ssa.MakeClosure:
		if x.closures == nil {
			oos("closure in %s", fc.fn)
		}
		x.closures[i] = i
		fc.env[i] = mkInt(int64(1000000 + len(i.Fn.String())))
	case *ssa.Range, *ssa.Next:
		oos("range over map/string in %s", fc.fn)
	case *ssa.RunDefers:
		for _, bb := range fc.fn.Blocks {
			for _, ii := range bb.Instrs {
				if d, isD := ii.(*ssa.Defer); isD {
					if x.closures == nil {
						oos("defer in %s", fc.fn)
					}
					x.runDeferredClosure(fc, st, d)
				}
			}
		}
	case *ssa.Defer:
		if x.closures == nil {
			oos("%T in %s", in, fc.fn)
		}
		// executed at rundefers (E-DRV checks that every defer sits in the entry block, so it is always pending there)
	case *ssa.Go, *ssa.Select, *ssa.Send, *ssa.MakeChan:
		oos("%T in %s", in, fc.fn)
	default:
		oos("unsupported instruction %T (%s) in %s", in, in, fc.fn)
	}
}

// runDeferredClosure executes the body of a deferred closure call `defer func(){...}()` in place: its
// free variables are bound to the values captured by the MakeClosure instruction.
func (x *Exec) runDeferredClosure(fc *frameCtx, st *State, d *ssa.Defer) {
	mc, ok := d.Call.Value.(*ssa.MakeClosure)
	if !ok || len(d.Call.Args) != 0 {
		oos("deferred call is not a closure literal without arguments in %s", fc.fn)
	}
	fn := mc.Fn.(*ssa.Function)
	saved := x.lazyEnv
	outer := fc
	x.lazyEnv = func(v ssa.Value) Val {
		if fv, ok := v.(*ssa.FreeVar); ok {
			for k, f := range fn.FreeVars {
				if f == fv {
					return x.operand(outer, mc.Bindings[k], nil)
				}
			}
		}
		if saved != nil {
			return saved(v)
		}
		oos("free value %s in deferred closure", v.Name())
		return nil
	}
	defer func() { x.lazyEnv = saved }()
	x.depth++
	sub := x.runFunction(fn, st, nil, nil, false)
	x.depth--
	if len(sub.rets) != 1 {
		oos("deferred closure with %d return paths", len(sub.rets))
	}
	*st = *sub.rets[0].st
}

func (x *Exec) execUnOp(fc *frameCtx, st *State, i *ssa.UnOp) {
	switch i.Op {
	case token.MUL: // load
		addr := x.operand(fc, i.X, nil)
		switch a := addr.(type) {
		case PtrV:
			if a.Kind == "cell" && strings.HasPrefix(a.Key, "G:") {
				fc.env[i] = x.loadGlobal(st, a)
				return
			}
			fc.env[i] = x.loadLoc(st, a)
		case *Term:
			x.safety(st, "nil", i.Pos(), i, tNe(a, mkInt(0)))
			fc.env[i] = x.loadStruct(st, a, i.Type())
		}
	case token.NOT:
		fc.env[i] = tNot(x.operand(fc, i.X, nil).(*Term))
	case token.SUB:
		fc.env[i] = x.wrap(tNeg(x.operand(fc, i.X, nil).(*Term)), i.Type())
	default:
		v := x.freshVal(st, i.Name(), i.Type())
		x.Sc.Comment("havoc: unmodelled unary op " + i.Op.String())
		fc.env[i] = v
	}
}

// loadGlobal: package-level variables are read through a per-variable heap cell; globals
// whose write set is empty keep their initial value (checked by E-FRAME, assumed here).
func (x *Exec) loadGlobal(st *State, a PtrV) Val {
	if v, ok := x.constGlobal[a.Key]; ok {
		return v
	}
	cs := compsOf(a.T)
	ts := make([]*Term, len(cs))
	for i, c := range cs {
		ts[i] = tSelect(x.heapGet(st, a.Key+c.Suffix, arrSort(c.Sort)), mkInt(0))
	}
	v := unflatten(a.T, ts)
	x.assumeWF(st, v, a.T)
	return v
}

func (x *Exec) wrap(t *Term, ty types.Type) *Term {
	lo, hi, ok := intRange(ty)
	if !ok {
		return t
	}
	_ = lo
	b := ty.Underlying().(*types.Basic)
	if b.Info()&types.IsUnsigned != 0 {
		mod := new(bigInt).Add(hi, bigOne)
		return mkApp("mod", SInt, t, mkBig(mod))
	}
	// narrow signed: two's complement wrap-around, ((t - lo) mod 2^n) + lo
	if t.isInt() && t.ival.Cmp(lo) >= 0 && t.ival.Cmp(hi) <= 0 {
		return t
	}
	mod := new(bigInt).Add(new(bigInt).Sub(hi, lo), bigOne)
	return tAdd(mkApp("mod", SInt, tSub(t, mkBig(lo)), mkBig(mod)), mkBig(lo))
}

func (x *Exec) execBinOp(fc *frameCtx, st *State, i *ssa.BinOp) Val {
	xt := i.X.Type()
	a := x.operand(fc, i.X, i.Y.Type())
	b := x.operand(fc, i.Y, i.X.Type())
	switch i.Op {
	case token.EQL, token.NEQ:
		var eq *Term
		switch av := a.(type) {
		case *Term:
			bv, ok := b.(*Term)
			if !ok {
				// nil constant against composite
				eq = nilTest(b, xt)
				break
			}
			eq = tEq(av, bv)
		case SliceV:
			if isNilConst(i.Y) {
				eq = tEq(av.Arr, mkInt(0))
			} else if isNilConst(i.X) {
				eq = nilTest(b, xt)
			} else {
				oos("slice comparison")
			}
		case IfaceV:
			switch bv := b.(type) {
			case IfaceV:
				eq = tAnd(tEq(av.Tag, bv.Tag), tEq(av.Ref, bv.Ref))
			case *Term:
				eq = tEq(av.Tag, mkInt(0))
			}
		case StructV:
			oos("struct comparison")
		default:
			oos("comparison of %T", a)
		}
		if i.Op == token.NEQ {
			eq = tNot(eq)
		}
		return x.Sc.Define(i.Name(), eq)
	}
	at, aok := a.(*Term)
	bt, bok := b.(*Term)
	if !aok || !bok {
		oos("binop %s on %T", i.Op, a)
	}
	if at.sort == SBool {
		switch i.Op {
		case token.AND, token.LAND:
			return tAnd(at, bt)
		case token.OR, token.LOR:
			return tOr(at, bt)
		}
	}
	isStr := false
	if bt2, ok := xt.Underlying().(*types.Basic); ok && bt2.Info()&types.IsString != 0 {
		isStr = true
	}
	var r *Term
	switch i.Op {
	case token.ADD:
		if isStr {
			x.Sc.DeclareFun("str.cat", []string{SInt, SInt}, SInt)
			r = x.Sc.Define(i.Name(), mkApp("str.cat", SInt, at, bt))
			x.Sc.Assert(tEq(x.strLen(r), tAdd(x.strLen(at), x.strLen(bt))))
			return r
		}
		r = x.wrap(tAdd(at, bt), i.Type())
	case token.SUB:
		r = x.wrap(tSub(at, bt), i.Type())
	case token.MUL:
		r = x.wrap(tMul(at, bt), i.Type())
	case token.QUO:
		x.safety(st, "div", i.Pos(), i, tNe(bt, mkInt(0)))
		// Go truncates toward zero; SMT div floors. Exact for non-negative operands.
		r = tIte(tAnd(tGe(at, mkInt(0)), tGt(bt, mkInt(0))), mkApp("div", SInt, at, bt), x.Sc.Fresh("quo", SInt))
	case token.REM:
		x.safety(st, "div", i.Pos(), i, tNe(bt, mkInt(0)))
		r = tIte(tAnd(tGe(at, mkInt(0)), tGt(bt, mkInt(0))), mkApp("mod", SInt, at, bt), x.Sc.Fresh("rem", SInt))
	case token.LSS:
		if isStr {
			oos("string ordering")
		}
		r = tLt(at, bt)
	case token.LEQ:
		r = tLe(at, bt)
	case token.GTR:
		r = tGt(at, bt)
	case token.GEQ:
		r = tGe(at, bt)
	default:
		// bit operations etc.: sound havoc within the type's range
		x.Sc.Comment("havoc: unmodelled binary op " + i.Op.String())
		return x.freshVal(st, i.Name(), i.Type())
	}
	return x.Sc.Define(i.Name(), r)
}

func (x *Exec) execConvert(fc *frameCtx, st *State, i *ssa.Convert) Val {
	from, to := i.X.Type().Underlying(), i.Type().Underlying()
	v := x.operand(fc, i.X, nil)
	fb, fIsB := from.(*types.Basic)
	tb, tIsB := to.(*types.Basic)
	switch {
	case fIsB && tIsB && fb.Info()&types.IsInteger != 0 && tb.Info()&types.IsInteger != 0:
		t := v.(*Term)
		flo, fhi, fok := intRange(from)
		tlo, thi, tok := intRange(to)
		if !tok {
			// to int/int64: uint64 values above 2^63 would wrap; assume not (standing assumption)
			return t
		}
		if fok && flo.Cmp(tlo) >= 0 && fhi.Cmp(thi) <= 0 {
			return t
		}
		if tb.Info()&types.IsUnsigned != 0 {
			return x.Sc.Define(i.Name(), mkApp("mod", SInt, t, mkBig(new(bigInt).Add(thi, bigOne))))
		}
		return x.freshVal(st, i.Name(), i.Type())
	case tIsB && tb.Info()&types.IsString != 0:
		// string([]byte) / string(rune): identity determined by contents
		if sv, ok := v.(SliceV); ok {
			x.Sc.DeclareFun("str.ofbytes", []string{SArrII, SInt, SInt}, SInt)
			h := x.heapGet(st, elemKey(types.Typ[types.Uint8]), SArr2I)
			id := x.Sc.Define(i.Name(), mkApp("str.ofbytes", SInt, tSelect(h, sv.Arr), sv.Off, sv.Len))
			x.Sc.Assert(tEq(x.strLen(id), sv.Len))
			return id
		}
		id := x.Sc.Fresh(i.Name(), SInt)
		x.Sc.Assert(tGe(x.strLen(id), mkInt(0)))
		return id
	case fIsB && fb.Info()&types.IsString != 0:
		if sl, ok := to.(*types.Slice); ok {
			s := v.(*Term)
			ln := x.strLen(s)
			res := x.makeSlice(st, sl.Elem(), ln, ln)
			// contents: bytes of the string
			h := x.heapGet(st, elemKey(sl.Elem()), SArr2I)
			k := mkConst("ck", SInt)
			sel := mkApp("select", SInt, tSelect(h, res.Arr), k)
			x.Sc.Assert(tImp(st.Guard, tForallPat([]*Term{k}, tImp(tAnd(tLe(mkInt(0), k), tLt(k, ln)), tEq(sel, x.strByte(s, k))), sel)))
			return res
		}
	}
	x.Sc.Comment("havoc: unmodelled conversion " + i.String())
	return x.freshVal(st, i.Name(), i.Type())
}

func (x *Exec) execTypeAssert(fc *frameCtx, st *State, i *ssa.TypeAssert) {
	iv := x.operand(fc, i.X, nil).(IfaceV)
	if _, isIface := i.AssertedType.Underlying().(*types.Interface); isIface {
		// interface-to-interface: succeeds iff dynamic type implements; approximated:
		ok := x.Sc.Fresh(i.Name()+"_ok", SBool)
		x.Sc.Assert(tImp(ok, tNe(iv.Tag, mkInt(0))))
		if i.CommaOk {
			fc.env[i] = TupleV{IfaceV{tIte(ok, iv.Tag, mkInt(0)), tIte(ok, iv.Ref, mkInt(0))}, ok}
		} else {
			x.safety(st, "assert", i.Pos(), i, ok)
			fc.env[i] = iv
		}
		return
	}
	want := mkInt(int64(x.W.typeID(i.AssertedType)))
	ok := tEq(iv.Tag, want)
	var val Val
	switch i.AssertedType.Underlying().(type) {
	case *types.Pointer, *types.Basic, *types.Map, *types.Signature:
		if b, isB := i.AssertedType.Underlying().(*types.Basic); isB && b.Info()&types.IsBoolean != 0 {
			val = tEq(iv.Ref, mkInt(1))
		} else {
			val = iv.Ref
		}
	default:
		val = x.freshVal(st, i.Name(), i.AssertedType)
	}
	if i.CommaOk {
		okc := x.Sc.Define(i.Name()+"_ok", ok)
		if t, isT := val.(*Term); isT && t.sort == SInt {
			val = tIte(okc, t, mkInt(0))
		}
		fc.env[i] = TupleV{val, okc}
	} else {
		x.safety(st, "assert", i.Pos(), i, ok)
		fc.env[i] = val
	}
}

func (x *Exec) execSlice(fc *frameCtx, st *State, i *ssa.Slice) {
	get := func(v ssa.Value) *Term {
		if v == nil {
			return nil
		}
		return x.operand(fc, v, nil).(*Term)
	}
	lo, hi, mx := get(i.Low), get(i.High), get(i.Max)
	if lo == nil {
		lo = mkInt(0)
	}
	switch xt := i.X.Type().Underlying().(type) {
	case *types.Slice:
		sv := x.operand(fc, i.X, xt).(SliceV)
		if hi == nil {
			hi = sv.Len
		}
		capv := sv.Cap
		bound := sv.Cap
		if mx != nil {
			x.safety(st, "slice", i.Pos(), i, tAnd(tLe(mkInt(0), lo), tLe(lo, hi), tLe(hi, mx), tLe(mx, sv.Cap)))
			capv = mx
		} else {
			x.safety(st, "slice", i.Pos(), i, tAnd(tLe(mkInt(0), lo), tLe(lo, hi), tLe(hi, bound)))
		}
		fc.env[i] = SliceV{sv.Arr, x.Sc.Define(i.Name()+"_off", tAdd(sv.Off, lo)), x.Sc.Define(i.Name()+"_len", tSub(hi, lo)), x.Sc.Define(i.Name()+"_cap", tSub(capv, lo))}
	case *types.Pointer:
		at := xt.Elem().Underlying().(*types.Array)
		pv := x.operand(fc, i.X, nil).(PtrV)
		if hi == nil {
			hi = mkInt(at.Len())
		}
		x.safety(st, "slice", i.Pos(), i, tAnd(tLe(mkInt(0), lo), tLe(lo, hi), tLe(hi, mkInt(at.Len()))))
		fc.env[i] = SliceV{pv.Ref, lo, tSub(hi, lo), tSub(mkInt(at.Len()), lo)}
	case *types.Basic:
		s := x.operand(fc, i.X, nil).(*Term)
		ln := x.strLen(s)
		if hi == nil {
			hi = ln
		}
		x.safety(st, "slice", i.Pos(), i, tAnd(tLe(mkInt(0), lo), tLe(lo, hi), tLe(hi, ln)))
		x.Sc.DeclareFun("str.sub", []string{SInt, SInt, SInt}, SInt)
		r := x.Sc.Define(i.Name(), mkApp("str.sub", SInt, s, lo, hi))
		x.Sc.Assert(tImp(st.Guard, tEq(x.strLen(r), tSub(hi, lo))))
		fc.env[i] = r
	default:
		oos("slice of %s", i.X.Type())
	}
}
