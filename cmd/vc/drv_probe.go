package main

import (
	"fmt"
	"os"

	"golang.org/x/tools/go/ssa"
)

// debugDrvProbe prints the naive-form SSA of the LR driver outside the action regions (development aid).
func debugDrvProbe(args []string) int {
	w, err := loadWorld("./...")
	if err != nil {
		fmt.Fprintln(os.Stderr, err)
		return 2
	}
	name := "php7"
	if len(args) > 0 {
		name = args[0]
	}
	dv, err := loadDriver(w, name)
	if err != nil {
		fmt.Fprintln(os.Stderr, err)
		return 2
	}
	if len(args) > 2 {
		for _, b := range dv.fn.Blocks {
			if fmt.Sprint(b.Index) == args[2] {
				for _, in := range b.Instrs {
					if v, ok := in.(ssa.Value); ok {
						fmt.Printf("    %s = %s\n", v.Name(), in)
					} else {
						fmt.Printf("    %s\n", in)
					}
				}
			}
		}
		return 0
	}
	fmt.Printf("blocks=%d action-blocks=%d dispatch=b%d done=b%d rules=%d\n", len(dv.fn.Blocks), len(dv.inAction), dv.dispatch.Index, dv.done.Index, len(dv.ruleEntry))
	for _, b := range dv.fn.Blocks {
		if dv.inAction[b] || dv.inSwitch[b] && b != dv.dispatch {
			continue
		}
		fmt.Printf("b%d (%s) preds=%v succs=%v\n", b.Index, b.Comment, idxs(b.Preds), idxs(b.Succs))
		if len(args) > 1 {
			for _, in := range b.Instrs {
				if v, ok := in.(ssa.Value); ok {
					fmt.Printf("    %s = %s\n", v.Name(), in)
				} else {
					fmt.Printf("    %s\n", in)
				}
			}
		}
	}
	return 0
}

func idxs(bs []*ssa.BasicBlock) []int {
	var o []int
	for _, b := range bs {
		o = append(o, b.Index)
	}
	return o
}
