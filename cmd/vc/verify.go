package main

import (
	"fmt"
	"go/types"
	"sort"
	"strings"

	"golang.org/x/tools/go/ssa"
)

type FuncReport struct {
	Name       string
	Pkg        string
	Key        string
	Script     *Script
	OutOfSub   string // non-empty: function is outside the modelled subset
	Assumed    []string
	Inlined    []string
	Callees    []string
	SolverTime float64
	Trusted    bool
}

// verifyFunction generates all obligations of fn against its contract.
func verifyFunction(w *World, fn *ssa.Function, con *Contract, props []string) (rep *FuncReport) {
	x := newExec(w, fn, props)
	rep = &FuncReport{Name: x.Prefix, Pkg: funcPkgPath(fn), Key: funcKey(fn), Script: x.Sc}
	if con != nil && con.Trusted {
		rep.Trusted = true
		return rep
	}
	defer func() {
		if r := recover(); r != nil {
			if o, ok := r.(OutOfSubset); ok {
				rep.OutOfSub = o.Msg
				return
			}
			rep.OutOfSub = fmt.Sprintf("generator fault (%v): the function's shape is outside what the VC generator handles", r)
		}
	}()
	alloc0 := x.allocInit()
	x.Sc.Assert(tGe(alloc0, mkInt(1)))
	st := &State{Guard: tTrue, Heap: map[string]*Term{}, Alloc: alloc0}
	if dv := w.driverTables(funcPkgPath(fn)); dv != nil {
		// a function of a generated parser package: the parse tables are read-only arrays whose stated facts
		// (decided by exhaustive evaluation) are available, as in E-DRV
		dv.setupTables(x)
	}
	var args []Val
	for _, p := range fn.Params {
		args = append(args, x.freshVal(st, "p_"+p.Name(), p.Type()))
	}
	// preconditions
	pfc := &frameCtx{fn: fn, params: map[string]TV{}, env: map[ssa.Value]Val{}, entry: st}
	for i, p := range fn.Params {
		pfc.params[p.Name()] = TV{args[i], p.Type()}
	}
	// package invariants (established by the package initialisers, preserved by the frame lemma)
	isInit := fn.Name() == "init" && fn.Signature.Recv() == nil
	for _, pp := range sortedKeys(w.CFiles) {
		cf := w.CFiles[pp]
		if len(cf.Invariants) == 0 || (isInit && pp == funcPkgPath(fn)) {
			continue
		}
		ifc := &frameCtx{pkgPath: pp, params: map[string]TV{}, env: map[ssa.Value]Val{}, entry: st}
		for _, inv := range cf.Invariants {
			x.Sc.Assert(x.evalBool(ifc, st, inv, nil))
		}
		x.Assumed["package invariants of "+shortPkg(pp)+" hold at entry (established by init: proved; preserved: frame lemma)"] = true
	}
	for _, pp := range sortedKeys(w.CFiles) {
		cf := w.CFiles[pp]
		for _, g := range cf.Grounds {
			gfc := &frameCtx{pkgPath: pp, params: map[string]TV{}, env: map[ssa.Value]Val{}, entry: st}
			x.Sc.Assert(x.evalBool(gfc, st, g, nil))
			x.Assumed["ground-eval: "+g.String()+" (validated each run by executing the real function in replay/ground_test harness)"] = true
		}
	}
	if isInit {
		if g, ok := fn.Pkg.Members["init$guard"].(*ssa.Global); ok {
			gp := x.globalPtr(g).(PtrV)
			x.Sc.Assert(tNot(tSelect(x.heapGet(st, gp.Key, SArrIB), mkInt(0))))
		}
		if cf := w.CFiles[funcPkgPath(fn)]; cf != nil && con == nil {
			con = &Contract{Key: "init", Pkg: funcPkgPath(fn), Loops: map[int]*LoopSpec{}, File: "package invariants"}
			con.Ensures = append(con.Ensures, cf.Invariants...)
		}
	}
	if con != nil {
		for _, r := range con.Requires {
			x.Sc.Assert(x.evalBool(pfc, st, r, nil))
		}
		// vacuity guard: the precondition must be satisfiable
		x.Sc.AddObligation(&Obligation{Name: x.Prefix + "/cover/requires", Class: "cover", Props: props, Goal: tFalse, ExpectFail: true, Site: con.File})
	}
	entry := st.clone()
	fc := x.runFunction(fn, st, args, con, true)
	// postconditions and frame at every return
	for ri, r := range fc.rets {
		rs := r.st
		fc.result = r.val
		fc.entry = entry
		if con != nil {
			// ghost updates
			for _, g := range con.GhostRet {
				x.applyGhost(fc, rs, entry, g)
			}
			for k, e := range con.Ensures {
				t := x.evalBoolOld(fc, rs, entry, e)
				site := e.String()
				if len(fc.rets) > 1 {
					site = fmt.Sprintf("%s@ret%d", site, ri)
				}
				x.obligeAt(rs, fmt.Sprintf("post:%d", k), site, fn.Pos(), t)
			}
			if con.HasMod {
				x.frameObligations(fc, rs, entry, con, ri)
			}
		}
	}
	if con != nil && len(fc.rets) > 0 {
		// reachability of some exit under the precondition
		var gs []*Term
		for _, r := range fc.rets {
			gs = append(gs, r.st.Guard)
		}
		x.Sc.AddObligation(&Obligation{Name: x.Prefix + "/cover/exit", Class: "cover", Props: props, Goal: tNot(tOr(gs...)), ExpectFail: true, Site: con.File})
	}
	rep.Assumed = sortedKeys(x.Assumed)
	var as []string
	for _, a := range rep.Assumed {
		if !strings.HasPrefix(a, "strlit:") && !strings.HasPrefix(a, "globalref:") {
			as = append(as, a)
		}
	}
	rep.Assumed = as
	rep.Inlined = sortedKeys(x.Inlined)
	rep.Callees = sortedKeys(x.Callees)
	return rep
}

func (x *Exec) obligeAt(s *State, cls, site string, pos interface{}, cond *Term) {
	name := x.Prefix + "/" + cls + "/" + x.site(cls, site)
	// top-level conjuncts become separate obligations (smaller queries, sharper failure reports)
	parts := []*Term{cond}
	if cond.op == "and" {
		parts = cond.args
	}
	for i, c := range parts {
		n := name
		if len(parts) > 1 {
			n = fmt.Sprintf("%s&%d", name, i)
		}
		goal := tImp(s.Guard, c)
		x.Sc.AddObligation(&Obligation{Name: n, Class: cls, Props: x.Props, Goal: goal})
		x.Sc.Assert(goal)
	}
}

func (x *Exec) applyGhost(fc *frameCtx, st, old *State, g GhostUpdate) {
	x.applyGhostB(fc, st, old, g, nil)
}

func (x *Exec) applyGhostB(fc *frameCtx, st, old *State, g GhostUpdate, b binds) {
	if g.Loc.Kind != "sel" {
		oos("ghost-return location must be x.f")
	}
	base := x.eval(fc, st, old, g.Loc.Args[0], b)
	ref, t := x.structRefOf(base)
	n, ok := t.(*types.Named)
	if !ok {
		oos("ghost field on unnamed type")
	}
	gf := x.W.ghostField(n, g.Loc.Name)
	if gf == nil {
		oos("no ghost field %s", g.Loc.Name)
	}
	val := x.eval(fc, st, old, g.Expr, b).V.(*Term)
	key := "F:" + typeName(t) + "." + gf.Name
	h := x.heapGet(st, key, arrSort(ghostSort(gf.Sort)))
	x.heapSet(st, key, tStore(h, ref, val))
}

// frameObligations: every heap array the function may write is unchanged outside the modifies set
// for all references that existed at entry.
func (x *Exec) frameObligations(fc *frameCtx, rs, entry *State, con *Contract, ri int) {
	mods := x.modSet(fc, entry, con)
	var keys []string
	for k := range rs.Heap {
		keys = append(keys, k)
	}
	sort.Strings(keys)
	for _, k := range keys {
		h1 := rs.Heap[k]
		h0, ok := x.lookupHeap(entry, k)
		if !ok || h1 == nil || h0 == nil || same(h0, h1) {
			continue
		}
		if strings.HasPrefix(k, "C:") || strings.HasPrefix(k, "G:ghost.") {
			continue // local cells are never visible to the caller unless they escape (flagged elsewhere)
		}
		r := x.Sc.Fresh("frame_r", SInt)
		conds := []*Term{tLt(r, entry.Alloc), tLe(mkInt(0), r)}
		excl, whole := modExcl(mods, k, r)
		if whole {
			continue
		}
		conds = append(conds, excl...)
		goal := tImp(tAnd(conds...), tEq(tSelect(h1, r), tSelect(h0, r)))
		site := k
		if len(fc.rets) > 1 {
			site = fmt.Sprintf("%s@ret%d", k, ri)
		}
		x.obligeAt(rs, "frame", site, nil, goal)
	}
}

// verifyLemmas turns the `lemma` clauses of a contract file into obligations (pure SMT, no code).
func verifyLemmas(w *World, pkgPath string, props []string) *FuncReport {
	cf := w.CFiles[pkgPath]
	x := &Exec{W: w, Sc: NewScript(shortPkg(pkgPath) + ".lemmas"), Props: props, Prefix: shortPkg(pkgPath) + ".lemma",
		init: map[string]*Term{}, siteCnt: map[string]int{}, Assumed: map[string]bool{}, Inlined: map[string]bool{}, Callees: map[string]bool{}}
	rep := &FuncReport{Name: x.Prefix, Pkg: pkgPath, Key: "lemmas", Script: x.Sc}
	defer func() {
		if r := recover(); r != nil {
			if o, ok := r.(OutOfSubset); ok {
				rep.OutOfSub = o.Msg
				return
			}
			panic(r)
		}
	}()
	st := &State{Guard: tTrue, Heap: map[string]*Term{}, Alloc: x.allocInit()}
	fc := &frameCtx{pkgPath: pkgPath, params: map[string]TV{}, env: map[ssa.Value]Val{}, entry: st}
	for _, l := range cf.Lemmas {
		t := x.evalBool(fc, st, l.Expr, nil)
		x.Sc.AddObligation(&Obligation{Name: x.Prefix + "/" + l.Name, Class: "lemma", Props: props, Goal: t, Site: l.Expr.String()})
	}
	return rep
}
