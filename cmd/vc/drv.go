package main

// E-DRV: Floyd-style proof over the goyacc-generated LR driver (*yyParserImpl).Parse of both
// grammar packages. The semantic actions (the `case k` regions of the big switch) are verified one
// by one by E-GRAM; here they are abstracted by their frame (checked syntactically on every run):
// an action assigns yyVAL and yyDollar and writes heap objects, but no driver local, no stack slot
// and nothing of the yyParserImpl. Everything else - the stack, the table look-ups, the error
// branch - is executed symbolically from the real SSA (naive form) between cut points, with
// Houdini-inferred invariants from a template in the package's contract file (`//@ drv inv ...`).

import (
	"fmt"
	"go/constant"
	"go/token"
	"go/types"

	"golang.org/x/tools/go/packages"
	"golang.org/x/tools/go/ssa"
	"golang.org/x/tools/go/ssa/ssautil"
)

type driver struct {
	w         *World
	name      string // php7 | php5
	pkg       string
	spkg      *ssa.Package // naive-form package
	fn        *ssa.Function
	dispatch  *ssa.BasicBlock // block holding the first `yynt == k` test
	done      *ssa.BasicBlock // post-switch block
	inSwitch  map[*ssa.BasicBlock]bool
	inAction  map[*ssa.BasicBlock]bool
	ruleEntry map[int]*ssa.BasicBlock
	tables    map[string][]int64
	drvState
}

func buildNaivePkg(w *World, path string) (*ssa.Program, *ssa.Package, error) {
	p := w.PkgByPath[path]
	if p == nil {
		return nil, nil, fmt.Errorf("package %s not loaded", path)
	}
	prog, pkgs := ssautil.Packages([]*packages.Package{p}, ssa.NaiveForm)
	if len(pkgs) == 0 || pkgs[0] == nil {
		return nil, nil, fmt.Errorf("cannot build SSA of %s", path)
	}
	pkgs[0].Build()
	return prog, pkgs[0], nil
}

func loadDriver(w *World, name string) (*driver, error) {
	path := modPath + "/internal/" + name
	prog, sp, err := buildNaivePkg(w, path)
	if err != nil {
		return nil, err
	}
	dv := &driver{w: w, name: name, pkg: path, spkg: sp, inSwitch: map[*ssa.BasicBlock]bool{}, inAction: map[*ssa.BasicBlock]bool{}, ruleEntry: map[int]*ssa.BasicBlock{}, tables: map[string][]int64{}}
	obj := w.PkgByPath[path].Types.Scope().Lookup("yyParserImpl")
	if obj == nil {
		return nil, fmt.Errorf("no type yyParserImpl in %s", path)
	}
	ms := prog.MethodSets.MethodSet(types.NewPointer(obj.Type()))
	for i := 0; i < ms.Len(); i++ {
		if ms.At(i).Obj().Name() == "Parse" {
			dv.fn = prog.MethodValue(ms.At(i))
		}
	}
	if dv.fn == nil {
		return nil, fmt.Errorf("no (*yyParserImpl).Parse in %s", path)
	}
	// the action switch: blocks ending in `if <tag> == const` on the most compared value
	type cmp struct {
		b *ssa.BasicBlock
		k int64
		v ssa.Value
	}
	var cmps []cmp
	cnt := map[ssa.Value]int{}
	for _, b := range dv.fn.Blocks {
		if len(b.Instrs) == 0 {
			continue
		}
		iff, ok := b.Instrs[len(b.Instrs)-1].(*ssa.If)
		if !ok {
			continue
		}
		bo, ok := iff.Cond.(*ssa.BinOp)
		if !ok || bo.Op != token.EQL {
			continue
		}
		c, ok := bo.Y.(*ssa.Const)
		if !ok || c.Value == nil || c.Value.Kind() != constant.Int {
			continue
		}
		k, _ := constant.Int64Val(c.Value)
		cmps = append(cmps, cmp{b, k, bo.X})
		cnt[bo.X]++
	}
	var sw ssa.Value
	for v, n := range cnt {
		if sw == nil || n > cnt[sw] {
			sw = v
		}
	}
	if sw == nil || cnt[sw] < 50 {
		return nil, fmt.Errorf("no action switch found in %s", dv.fn)
	}
	var last *ssa.BasicBlock
	for _, c := range cmps {
		if c.v != sw {
			continue
		}
		dv.inSwitch[c.b] = true
		dv.ruleEntry[int(c.k)] = c.b.Succs[0]
		if last == nil || c.b.Index > last.Index {
			last = c.b
		}
		if dv.dispatch == nil || c.b.Index < dv.dispatch.Index {
			dv.dispatch = c.b
		}
	}
	dv.done = last.Succs[1]
	// the tag must be evaluated in the dispatch block
	if in, ok := sw.(ssa.Instruction); !ok || in.Block() != dv.dispatch {
		return nil, fmt.Errorf("the switch tag of %s is not evaluated in the first test block", dv.fn)
	}
	var dfs func(b *ssa.BasicBlock)
	dfs = func(b *ssa.BasicBlock) {
		if dv.inAction[b] || b == dv.done || dv.inSwitch[b] {
			return
		}
		dv.inAction[b] = true
		for _, s := range b.Succs {
			dfs(s)
		}
	}
	for _, e := range dv.ruleEntry {
		dfs(e)
	}
	for _, t := range []string{"yyR1", "yyR2", "yyPact", "yyPgo", "yyAct", "yyChk", "yyDef", "yyExca", "yyTok1", "yyTok2", "yyTok3"} {
		dv.tables[t] = intArrayInit(sp, t)
	}
	dv.deriveExca()
	return dv, nil
}

// deriveExca computes the two witness tables used by the facts about yyExca: for a state s with an
// exception group, the index of its header pair (-1, s) and the index of the group's terminator pair.
// They are only witnesses: the facts that mention them are evaluated against the real yyExca.
func (dv *driver) deriveExca() {
	ex := dv.tables["yyExca"]
	n := len(dv.tables["yyDef"])
	hdr := make([]int64, n)
	end := make([]int64, n)
	for i := range hdr {
		hdr[i], end[i] = -1, -1
	}
	for i := 0; i+1 < len(ex); i += 2 {
		if ex[i] != -1 {
			continue
		}
		s := ex[i+1]
		if s < 0 || s >= int64(n) || hdr[s] >= 0 {
			continue
		}
		// a header only counts when it starts a group: the previous pair is a terminator (or i == 0)
		if i > 0 && ex[i-2] >= 0 {
			continue
		}
		hdr[s] = int64(i)
		for j := i + 2; j+1 < len(ex); j += 2 {
			if ex[j] < 0 {
				end[s] = int64(j)
				break
			}
		}
	}
	dv.tables["yyExcaHdr"] = hdr
	dv.tables["yyExcaEnd"] = end
}
