package main

// E-GRAM, part 4: per-rule obligations (shape, conserve, linear, pos, leaf) and their discharge.
//
//   shape    — decided during execution (type assertions, nil dereferences, nil callback, stale $$)
//   conserve — yield($$) after the action == yield($1) · … · yield($n) before it, where the yield
//              of a node is the sequence of token atoms the *real printer* emits for it (layout taken
//              from the printer's trace, C15 pins that trace); compared after normalisation
//   linear   — no object occupies two slots of the result
//   pos      — SMT: the Position given to every node the action creates or completes equals the
//              span of that node's yield; builder semantics taken from the trace of the real
//              builder functions (their helpers are under E-VC contracts)
//   leaf     — Value of a leaf node is the Value of a token stored in that node

import (
	"golang.org/x/tools/go/ssa"
	"fmt"
	"go/token"
	"go/types"
	"regexp"
	"sort"
	"strings"
)

// ---------------------------------------------------------------------------
// layouts

func newGramCtx(w *World, gp *gramParser) *gramCtx {
	g := &gramCtx{W: w, carrier: map[string]bool{}, Layout: map[string][]yItem{}, LayoutSrc: map[string]string{}, Builder: map[string]*builderSem{}}
	// real ast kinds: from the printer's trace (first path; C15 checks all paths agree)
	pkg := modPath + "/pkg/visitor/printer"
	f := loadFamily(w, pkg, "(*printer)")
	dirs := traceDirectives(w, pkg)
	allowWrite := map[string]bool{}
	for _, a := range dirs["allow-write"] {
		allowWrite[a] = true
	}
	kinds := astKinds(w)
	for ki := range kinds {
		k := &kinds[ki]
		paths, err := f.trace(k.Name)
		tn := typeName(k.Named)
		if err != "" || len(paths) == 0 {
			g.Problems = append(g.Problems, "no printer trace for "+k.Name+": "+err)
			continue
		}
		items, _ := printerItems(k, paths[0], allowWrite)
		var lay []yItem
		seenPeek := map[string]bool{}
		for idx := 0; idx < len(items); idx++ {
			it := items[idx]
			slot := it.Slot
			if i := strings.Index(slot, "/"); i >= 0 {
				slot = slot[:i]
				if seenPeek[slot] {
					continue
				}
				seenPeek[slot] = true
				lay = append(lay, yItem{Kind: "node", Slot: slot})
				continue
			}
			switch it.Kind {
			case "token":
				lay = append(lay, yItem{Kind: "tok", Slot: slot})
			case "vertex":
				lay = append(lay, yItem{Kind: "node", Slot: slot})
			case "vertices":
				if it.Ev != nil && it.Ev.Callee == "printSeparatedList" && idx+1 < len(items) && items[idx+1].Ev == it.Ev {
					lay = append(lay, yItem{Kind: "il", Slot: slot, Sep: items[idx+1].Slot})
					idx++
				} else {
					lay = append(lay, yItem{Kind: "list", Slot: slot})
				}
			}
		}
		g.Layout[tn] = lay
		g.LayoutSrc[tn] = "printer trace of " + k.Name
	}
	// parser-private carrier types: ghost yields from the contract file of the grammar package
	if cf := w.CFiles[gp.Pkg]; cf != nil {
		for _, d := range cf.Directives {
			word, rest := splitWord(d)
			if word != "gram" {
				continue
			}
			w2, r2 := splitWord(rest)
			if w2 != "yield" {
				continue
			}
			i := strings.Index(r2, ":=")
			if i < 0 {
				continue
			}
			tn := shortPkg(gp.Pkg) + "." + strings.TrimSpace(r2[:i])
			var lay []yItem
			for _, part := range strings.Fields(r2[i+2:]) {
				m := regexp.MustCompile(`^(tok|node|list|il)\(([A-Za-z0-9_]+)(?:,([A-Za-z0-9_]+))?\)$`).FindStringSubmatch(part)
				if m == nil {
					g.Problems = append(g.Problems, "bad yield directive: "+d)
					continue
				}
				lay = append(lay, yItem{Kind: m[1], Slot: m[2], Sep: m[3]})
			}
			g.Layout[tn] = lay
			g.LayoutSrc[tn] = "ghost yield in the contract file"
		}
	}
	g.loadBuilderSem()
	return g
}

// ---------------------------------------------------------------------------
// builder semantics from the trace of the real functions

type posSrc struct {
	Kind  string // tok | node | list
	Side  string // start | end
	Param int    // index among the function's parameters (receiver excluded)
	Comp  string // line | pos
}

type builderPath struct {
	Conds  []string // "<param index>==nil" / "<param index>!=nil"
	Fields map[string]posSrc
}

type builderSem struct {
	Name  string
	Paths []builderPath
	Err   string
}

var reTokSrc = regexp.MustCompile(`^([A-Za-z0-9_]+)\.Position\.(StartLine|EndLine|StartPos|EndPos)$`)
var reHelpSrc = regexp.MustCompile(`^result\(get(Node|List)(Start|End)Pos\(([A-Za-z0-9_]+)\)\)\.(startLine|startPos|endLine|endPos)$`)
var reStoreDst = regexp.MustCompile(`^&result\(b\.pool\.Get\(\)\)\.(StartLine|EndLine|StartPos|EndPos)$`)

func (g *gramCtx) loadBuilderSem() {
	pkg := modPath + "/internal/position"
	for _, fn := range g.W.methodsOf(pkg, "(*Builder)") {
		if !strings.HasPrefix(fn.Name(), "New") || !strings.HasSuffix(fn.Name(), "Position") {
			continue
		}
		bs := &builderSem{Name: fn.Name()}
		g.Builder[fn.Name()] = bs
		paths, err := traceFunction(g.W, fn, nil)
		if err != nil {
			bs.Err = err.Error()
			continue
		}
		pidx := map[string]int{}
		for i, p := range fn.Params {
			pidx[p.Name()] = i - 1
		}
		for _, p := range feasible(paths) {
			bp := builderPath{Fields: map[string]posSrc{}}
			for _, c := range p.Conds {
				m := regexp.MustCompile(`^\(([A-Za-z0-9_]+) == nil\)$`).FindStringSubmatch(c.E.S)
				if m == nil {
					bs.Err = "condition outside the modelled forms: " + c.E.S
					continue
				}
				if c.Val {
					bp.Conds = append(bp.Conds, fmt.Sprintf("%d==nil", pidx[m[1]]))
				} else {
					bp.Conds = append(bp.Conds, fmt.Sprintf("%d!=nil", pidx[m[1]]))
				}
			}
			for _, ev := range p.Events {
				switch {
				case ev.Kind == "store":
					d := reStoreDst.FindStringSubmatch(ev.Args[0].S)
					if d == nil {
						bs.Err = "store to " + ev.Args[0].S
						continue
					}
					src := ev.Args[1].S
					if m := reTokSrc.FindStringSubmatch(src); m != nil {
						side, comp := "start", "pos"
						if strings.HasPrefix(m[2], "End") {
							side = "end"
						}
						if strings.HasSuffix(m[2], "Line") {
							comp = "line"
						}
						bp.Fields[d[1]] = posSrc{"tok", side, pidx[m[1]], comp}
					} else if m := reHelpSrc.FindStringSubmatch(src); m != nil {
						side, comp := "start", "pos"
						if m[2] == "End" {
							side = "end"
						}
						if strings.HasSuffix(m[4], "Line") {
							comp = "line"
						}
						if !strings.HasPrefix(m[4], strings.ToLower(m[2])) {
							bs.Err = "helper result component mismatch: " + src
						}
						bp.Fields[d[1]] = posSrc{strings.ToLower(m[1]), side, pidx[m[3]], comp}
					} else {
						bs.Err = "position field from " + src
					}
				case ev.Callee == "Get" || strings.HasPrefix(ev.Callee, "get"):
				default:
					bs.Err = "unexpected event " + ev.String()
				}
			}
			if len(p.Ret) != 1 || p.Ret[0].S != "result(b.pool.Get())" {
				bs.Err = "does not return the pool object"
			}
			bs.Paths = append(bs.Paths, bp)
		}
	}
}

// builderObligations: each builder function fills all four fields, lines from the same boundary as offsets.
func (g *gramCtx) builderObligations(c *CheckCtx) {
	for _, name := range sortedKeys(g.Builder) {
		bs := g.Builder[name]
		ob := "internal/position.(*Builder)." + name + "/trace/"
		c.addOb(ob+"modelled", "trace", "", bs.Err == "" && len(bs.Paths) > 0, "builder outside the modelled shape: "+bs.Err)
		ok := true
		why := ""
		for _, p := range bs.Paths {
			for _, pr := range [][2]string{{"StartPos", "StartLine"}, {"EndPos", "EndLine"}} {
				a, ok1 := p.Fields[pr[0]]
				b, ok2 := p.Fields[pr[1]]
				if !ok1 || !ok2 {
					ok = false
					why = pr[0] + "/" + pr[1] + " not assigned"
					continue
				}
				if a.Kind != b.Kind || a.Side != b.Side || a.Param != b.Param || a.Comp != "pos" || b.Comp != "line" {
					ok = false
					why = fmt.Sprintf("%s comes from %v but %s from %v", pr[0], a, pr[1], b)
				}
				want := "start"
				if pr[0] == "EndPos" {
					want = "end"
				}
				if a.Side != want {
					ok = false
					why = fmt.Sprintf("%s is taken from the %s of its boundary", pr[0], a.Side)
				}
			}
		}
		c.addOb(ob+"lines-follow-offsets", "trace", "", ok, why)
	}
}

// ---------------------------------------------------------------------------
// yields

type yAtom struct {
	Kind string // tok | tokopt | node | nodeopt | list | ilb | bad
	Obj  *gObj
	Obj2 *gObj
	Rel  string
	Note string
}

func (a yAtom) String() string {
	switch a.Kind {
	case "ilb":
		return fmt.Sprintf("IL(%s,%s|%s)", a.Obj, a.Obj2, a.Rel)
	case "bad":
		return "BAD(" + a.Note + ")"
	}
	return a.Kind + "(" + a.Obj.Origin + ")"
}

func atomsString(as []yAtom) string {
	var parts []string
	for _, a := range as {
		parts = append(parts, a.String())
	}
	return strings.Join(parts, " · ")
}

type yielder struct {
	g    *gramCtx
	r    *gRun
	post bool
	seen map[*gObj]int // linear: how often an object was placed
	depth int
}

func (y *yielder) nilKnown(o *gObj) (isNil, known bool) {
	if !o.MaybeNil {
		return false, true
	}
	if d, ok := y.r.facts[fmt.Sprintf("nil:%d", o.ID)]; ok {
		return d, true
	}
	if o.Alt != nil {
		return o.Alt.Nil, true
	}
	return false, false
}

// expanded: does the yield of this node have to be computed from its fields?
func (y *yielder) expanded(o *gObj) bool {
	if o.T == nil {
		return false
	}
	if !o.Input {
		return true
	}
	return o.Opened
}

func (y *yielder) fieldVal(o *gObj, f string) gv {
	st, _ := o.T.Underlying().(*types.Struct)
	var ft types.Type
	if st != nil {
		for i := 0; i < st.NumFields(); i++ {
			if st.Field(i).Name() == f {
				ft = st.Field(i).Type()
			}
		}
	}
	if ft == nil {
		return gOpaque{"no field " + f}
	}
	if y.post {
		if v, ok := o.Fields[f]; ok {
			return v
		}
	}
	return y.r.preField(o, f, ft)
}

func (y *yielder) ofToken(v gv) []yAtom {
	switch x := v.(type) {
	case gNil:
		return nil
	case gRef:
		if x.Obj.Kind != "token" {
			return []yAtom{{Kind: "bad", Note: "token slot holds " + x.Obj.Origin}}
		}
		y.seen[x.Obj]++
		n, known := y.nilKnown(x.Obj)
		if known && n {
			y.seen[x.Obj]--
			return nil
		}
		if known {
			return []yAtom{{Kind: "tok", Obj: x.Obj}}
		}
		return []yAtom{{Kind: "tokopt", Obj: x.Obj}}
	case gStale:
		return []yAtom{{Kind: "bad", Note: x.Why}}
	}
	return []yAtom{{Kind: "bad", Note: "token slot holds " + describeG(v)}}
}

func (y *yielder) ofNode(v gv) []yAtom {
	switch x := v.(type) {
	case gNil:
		return nil
	case gRef:
		o := x.Obj
		if o.Kind != "node" {
			return []yAtom{{Kind: "bad", Note: "node slot holds " + o.Origin}}
		}
		n, known := y.nilKnown(o)
		if known && n {
			return nil
		}
		y.seen[o]++
		if y.expanded(o) {
			if !known {
				return []yAtom{{Kind: "bad", Note: "node " + o.Origin + " is inspected although it may be nil"}}
			}
			return y.ofObj(o)
		}
		if known {
			return []yAtom{{Kind: "node", Obj: o}}
		}
		return []yAtom{{Kind: "nodeopt", Obj: o}}
	case gStale:
		return []yAtom{{Kind: "bad", Note: x.Why}}
	}
	return []yAtom{{Kind: "bad", Note: "node slot holds " + describeG(v)}}
}

func (y *yielder) ofObj(o *gObj) []yAtom {
	y.depth++
	defer func() { y.depth-- }()
	if y.depth > 12 {
		return []yAtom{{Kind: "bad", Note: "cyclic structure through " + o.Origin}}
	}
	lay, ok := y.g.Layout[typeName(o.T)]
	if !ok {
		return []yAtom{{Kind: "bad", Note: "no yield layout for type " + typeName(o.T)}}
	}
	var out []yAtom
	for _, it := range lay {
		switch it.Kind {
		case "tok":
			out = append(out, y.ofToken(y.fieldVal(o, it.Slot))...)
		case "node":
			out = append(out, y.ofNode(y.fieldVal(o, it.Slot))...)
		case "list":
			out = append(out, y.ofList(y.fieldVal(o, it.Slot))...)
		case "il":
			out = append(out, y.ofIL(y.fieldVal(o, it.Slot), y.fieldVal(o, it.Sep))...)
		}
	}
	return out
}

func (y *yielder) ofList(v gv) []yAtom {
	switch x := v.(type) {
	case gNil:
		return nil
	case *gList:
		var out []yAtom
		for _, e := range x.Pre {
			out = append(out, y.ofNode(e)...)
		}
		if x.Base != nil {
			b := x.Base
			if b.Kind != "list" {
				return []yAtom{{Kind: "bad", Note: "vertex list slot holds " + b.Origin}}
			}
			y.seen[b]++
			if d, ok := y.r.facts[fmt.Sprintf("lnil:%d", b.ID)]; ok && d {
				y.seen[b]--
			} else if d, ok := y.r.facts[fmt.Sprintf("lempty:%d", b.ID)]; ok && d {
				y.seen[b]--
			} else if !b.LNonEmpty {
				y.seen[b]--
			} else {
				out = append(out, yAtom{Kind: "list", Obj: b})
			}
		}
		for _, e := range x.App {
			out = append(out, y.ofNode(e)...)
		}
		return out
	case gStale:
		return []yAtom{{Kind: "bad", Note: x.Why}}
	}
	return []yAtom{{Kind: "bad", Note: "list slot holds " + describeG(v)}}
}

// ofIL: printSeparatedList(items, seps): item k, then separator k when k < len(seps)
func (y *yielder) ofIL(iv, sv gv) []yAtom {
	il, okI := iv.(*gList)
	sl, okS := sv.(*gList)
	if _, isNil := iv.(gNil); isNil {
		il, okI = &gList{}, true
	}
	if _, isNil := sv.(gNil); isNil {
		sl, okS = &gList{Tok: true}, true
	}
	if !okI || !okS {
		return []yAtom{{Kind: "bad", Note: "separated list slots hold " + describeG(iv) + " / " + describeG(sv)}}
	}
	if len(il.Pre) > 0 || len(sl.Pre) > 0 {
		return []yAtom{{Kind: "bad", Note: "separated list with elements in front of an opaque list"}}
	}
	ib, sb := il.Base, sl.Base
	if ib != nil {
		if d, ok := y.r.facts[fmt.Sprintf("lnil:%d", ib.ID)]; ok && d {
			ib = nil
		}
	}
	var out []yAtom
	rel := "empty"
	switch {
	case ib == nil && len(il.App) == 0:
		// no items: printSeparatedList prints nothing; separators must then be none
		okEmpty := sb == nil
		if sb != nil {
			if p := sb.Parent; p != nil && p.Alt != nil {
				for key, rl := range p.Alt.Rel {
					parts := strings.SplitN(key, "/", 2)
					if parts[1] != sb.PField {
						continue
					}
					if rl == "empty" {
						okEmpty = true
					}
					if rl == "eq-1" {
						if pv, ok := p.Pre[parts[0]]; ok {
							if pl, ok := pv.(*gList); ok && pl.Base != nil {
								if m, known := y.r.lenEq[pl.Base.ID]; known && m == 1 {
									okEmpty = true
								}
							}
						}
					}
				}
			}
		}
		if !okEmpty || len(sl.App) > 0 {
			return []yAtom{{Kind: "bad", Note: "separators kept while the item list is empty: they are never printed"}}
		}
		return nil
	case ib == nil && sb == nil:
	case ib != nil && ib.Kind == "list" && ib.Parent != nil && ib.Parent.Alt != nil:
		p := ib.Parent
		sep := y.g.sepSlotOf(p, ib.PField)
		if sep == "" {
			// the base was a plain list in its owner: it has no separators of its own
			if sb != nil || len(sl.App) > 0 || len(il.App) > 0 {
				return []yAtom{{Kind: "bad", Note: "separators paired with the plain list " + ib.Origin}}
			}
			y.seen[ib]++
			if ib.LNonEmpty {
				return []yAtom{{Kind: "list", Obj: ib}}
			}
			return nil
		}
		rel = p.Alt.Rel[ib.PField+"/"+sep]
		if rel == "" {
			rel = "other"
		}
		switch {
		case sb != nil && sb.Kind == "toklist" && sb.Parent == p && sb.PField == sep:
			y.seen[sb]++
		case sb == nil && p.Alt.NilF[sep]:
			// the base has no separators (so, with eq-1, exactly one item)
		default:
			d := "none"
			if sb != nil {
				d = sb.Origin
			}
			return []yAtom{{Kind: "bad", Note: "items based on " + ib.Origin + " are paired with separators based on " + d}}
		}
		y.seen[ib]++
		if m, known := y.r.lenEq[ib.ID]; known && m == 1 && rel == "eq-1" {
			// exactly one item and no separator: the yield of that item
			k := "elem(" + ib.Origin + ",0)"
			if v, ok := ib.Pre[k]; ok {
				out = append(out, y.ofNode(v)...)
			} else {
				out = append(out, yAtom{Kind: "ilb", Obj: ib, Obj2: sb, Rel: rel})
			}
		} else if rel != "empty" {
			out = append(out, yAtom{Kind: "ilb", Obj: ib, Obj2: sb, Rel: rel})
		}
		if rel == "opaque" {
			if len(il.App) > 0 || len(sl.App) > 0 {
				return append(out, yAtom{Kind: "bad", Note: "items or separators appended to a pair whose length relation is not fixed"})
			}
			return out
		}
	case ib != nil && ib.Kind == "list" && sb == nil && len(sl.App) == 0 && len(il.App) == 0:
		// an opaque plain list printed through printSeparatedList without separators
		y.seen[ib]++
		if ib.LNonEmpty {
			return []yAtom{{Kind: "list", Obj: ib}}
		}
		return nil
	default:
		a, b := "none", "none"
		if ib != nil {
			a = ib.Origin
		}
		if sb != nil {
			b = sb.Origin
		}
		return []yAtom{{Kind: "bad", Note: "separated list pairs items based on " + a + " with separators based on " + b}}
	}
	if rel == "other" {
		return append(out, yAtom{Kind: "bad", Note: "length relation between items and separators is not established"})
	}
	// base: LI items, LS = LI-1 (eq-1) | LI (eq) | 0 (empty) separators; appended separators fill
	// the first free separator positions
	n, k := len(il.App), len(sl.App)
	si := 0
	if rel == "eq-1" {
		// the last base item has no separator yet
		if k > 0 {
			out = append(out, y.ofToken(sl.App[0])...)
			si = 1
		}
	}
	for j := 0; j < n; j++ {
		out = append(out, y.ofNode(il.App[j])...)
		if si < k {
			out = append(out, y.ofToken(sl.App[si])...)
			si++
		}
	}
	if si < k {
		out = append(out, yAtom{Kind: "bad", Note: fmt.Sprintf("%d separator(s) beyond the last item are never printed", k-si)})
	}
	return out
}

func (y *yielder) ofValue(kind string, v gv) []yAtom {
	switch kind {
	case "token":
		return y.ofToken(v)
	case "node":
		return y.ofNode(v)
	case "list":
		return y.ofList(v)
	}
	return nil
}

func sameAtoms(a, b []yAtom) bool {
	if len(a) != len(b) {
		return false
	}
	for i := range a {
		if a[i].Kind != b[i].Kind || a[i].Obj != b[i].Obj || a[i].Obj2 != b[i].Obj2 || a[i].Kind == "bad" {
			return false
		}
	}
	return true
}

// subsequence: every atom of a occurs in b in order (error rules, C07)
func subAtoms(a, b []yAtom) bool {
	j := 0
	for i := range a {
		if a[i].Kind == "bad" {
			return false
		}
		for j < len(b) && !(a[i].Kind == b[j].Kind && a[i].Obj == b[j].Obj && a[i].Obj2 == b[j].Obj2) {
			j++
		}
		if j >= len(b) {
			return false
		}
		j++
	}
	return true
}

// ---------------------------------------------------------------------------
// checking one grammar

type gramResult struct {
	Name      string
	Rules     int
	Paths     int
	Skipped   []string
	OutOfSub  []string
	NTs       map[string]*ntInfo
	Rounds    int
	Script    *Script
	PairSigs  map[string][]string // rule signature -> canonical path renderings
	SlotTerms map[string]map[string]string // "Kind.Slot" -> terminal stored there -> a rule that does it
	MaybeNil  map[string]string            // "Kind.Slot" (vertex slot) -> a rule that embeds a node of that kind whose slot is not known to be filled
	AnyEmbeds int                          // embeddings of nodes whose kind is unknown to the abstract interpreter (no nil information)
	KindsBuilt map[string]bool             // ast kinds that some action allocates (their printer order is exercised by the conserve obligations)
	TokNoChild map[string]string           // "Kind.TokenSlot|ChildSlot" -> a rule that embeds a node with the token present while the child is not known to be present
}

func (g *gramCtx) obName(gp *gramParser, rule *yRule, class, what string) string {
	return fmt.Sprintf("internal/%s rule %d %s/%s/%s", gp.Name, rule.Num, rule.LHS, class, what)
}

func ruleSite(gp *gramParser, rule *yRule) string {
	return fmt.Sprintf("internal/%s/%s.y:%d  %s", gp.Name, gp.Name, rule.Line, rule)
}

type gramWant struct {
	Shape, Conserve, Linear, Pos, Leaf, Sub bool
}

func (g *gramCtx) checkGrammar(c *CheckCtx, gp *gramParser, want gramWant) *gramResult {
	res := &gramResult{Name: gp.Name, PairSigs: map[string][]string{}, SlotTerms: map[string]map[string]string{}, MaybeNil: map[string]string{}, TokNoChild: map[string]string{}, KindsBuilt: map[string]bool{}}
	for _, p := range gp.Problems {
		c.addOb("internal/"+gp.Name+"/table/grammar-file-matches-generated-parser: "+p, "table", "", false, p)
	}
	if len(gp.Problems) == 0 {
		c.addOb("internal/"+gp.Name+"/table/grammar-file-matches-generated-parser", "table", "", true, "")
	}
	nts, rounds := g.inferNT(gp)
	res.NTs, res.Rounds = nts, rounds
	sc := NewScript("gram-" + gp.Name)
	res.Script = sc
	for _, rule := range gp.G.Rules {
		res.Rules++
		site := ruleSite(gp, rule)
		paths, skipped := gp.runRule(rule, nts, 512)
		if skipped || len(paths) == 0 {
			// a symbol of the right-hand side has no inhabitant: the rule can never be reduced with
			// values satisfying the contracts; reported (vacuity) but not a violation of any property
			res.Skipped = append(res.Skipped, fmt.Sprintf("rule %d %s", rule.Num, rule))
			continue
		}
		shapeFails := map[string]bool{}
		var conserveBad, linearBad, leafBad, subBad []string
		aborted := ""
		for pi, p := range paths {
			res.Paths++
			r := p.Run
			pd := strings.Join(p.Dec, ", ")
			for _, f := range r.fails {
				if f.Class == "subset" {
					aborted = f.Msg
					continue
				}
				shapeFails[f.Class+": "+f.Msg+" [path: "+pd+"]"] = true
				if f.Class == "shared" {
					linearBad = append(linearBad, fmt.Sprintf("[path: %s] %s", pd, f.Msg))
				}
				if f.Class == "niltok" {
					conserveBad = append(conserveBad, fmt.Sprintf("[path: %s] %s", pd, f.Msg))
					subBad = append(subBad, fmt.Sprintf("[path: %s] %s", pd, f.Msg))
				}
			}
			if p.Aborted != "" {
				if len(r.fails) == 0 {
					aborted = p.Aborted
				}
				continue
			}
			kind := gp.G.Type[rule.LHS]
			out := r.yyval[kind]
			if rule.Num == 1 {
				// the start rule stores the root instead of assigning $$
				kind, out = "node", r.rootSet
				if out == nil {
					shapeFails["root: rule 1 does not store the root node"] = true
					continue
				}
			}
			if kind == "" {
				continue
			}
			if st, ok := out.(gStale); ok {
				shapeFails["stale: "+st.Why+" [path: "+pd+"]"] = true
				continue
			}
			// --- conserve
			post := &yielder{g: g, r: r, post: true, seen: map[*gObj]int{}}
			lhs := post.ofValue(kind, out)
			pre := &yielder{g: g, r: r, post: false, seen: map[*gObj]int{}}
			var rhs []yAtom
			for i := 1; i <= len(rule.RHS); i++ {
				if rule.RHS[i-1] == "error" {
					continue
				}
				k := r.symKind(rule.RHS[i-1])
				rhs = append(rhs, pre.ofValue(k, r.dollars0[i][k])...)
			}
			if rule.Num == 1 {
				rhs = append(rhs, yAtom{Kind: "tok", Obj: r.cur})
			}
			if rule.HasError || r.cbCalls > 0 {
				// an error rule, or a path on which the action reports an error: C02 does not
				// apply (it speaks of error-free parses); tokens may be dropped but not invented
				if !subAtoms(lhs, rhs) {
					subBad = append(subBad, fmt.Sprintf("[path: %s] yield($$) = %s is not a sub-sequence of %s", pd, atomsString(lhs), atomsString(rhs)))
				}
			} else {
				if !sameAtoms(lhs, rhs) {
					conserveBad = append(conserveBad, fmt.Sprintf("[path: %s] yield($$) = %s   but   yield($1..$n) = %s", pd, atomsString(lhs), atomsString(rhs)))
				}
				if !subAtoms(lhs, rhs) {
					subBad = append(subBad, fmt.Sprintf("[path: %s] yield($$) = %s is not a sub-sequence of %s", pd, atomsString(lhs), atomsString(rhs)))
				}
			}
			// --- linear
			for o, n := range post.seen {
				if n > 1 {
					linearBad = append(linearBad, fmt.Sprintf("[path: %s] %s occupies %d slots of the result", pd, o.Origin, n))
				}
			}
			sort.Strings(linearBad)
			// --- leaf
			if want.Leaf {
				leafBad = append(leafBad, g.leafCheck(r, out, pd)...)
			}
			// --- pos
			if want.Pos {
				g.posObligations(c, gp, rule, r, out, kind, pi, pd, sc)
			}
			// --- which terminal ends up in which token slot of which node kind (C10: both grammars agree)
			for _, o := range r.objs {
				if o.Kind != "node" || o.T == nil || o.T.Obj().Pkg() == nil || o.T.Obj().Pkg().Name() != "ast" {
					continue
				}
				for f, v := range o.Fields {
					ref, ok := v.(gRef)
					if !ok || ref.Obj == nil || ref.Obj.Kind != "token" || ref.Obj.Dollar <= 0 || ref.Obj.Dollar > len(rule.RHS) {
						continue
					}
					term := rule.RHS[ref.Obj.Dollar-1]
					if !gp.G.IsTerminal(term) {
						continue
					}
					k := o.T.Obj().Name() + "." + f
					if res.SlotTerms[k] == nil {
						res.SlotTerms[k] = map[string]string{}
					}
					if _, seen := res.SlotTerms[k][term]; !seen {
						res.SlotTerms[k][term] = fmt.Sprintf("rule %d %s", rule.Num, rule.LHS)
					}
				}
			}
			// --- which vertex slots of which node kinds can be nil in a parsed tree (C17: the formatter must test them):
			// whenever an action embeds a node into a vertex slot or a vertex list of an ast node, every vertex slot of the
			// embedded node that is not known to be filled at that moment is recorded
			noteAlt := func(a *ntAlt) {
				if a == nil || a.Nil {
					return
				}
				if a.Any || a.T == nil {
					res.AnyEmbeds++
					return
				}
				if a.T.Obj().Pkg() == nil || a.T.Obj().Pkg().Name() != "ast" {
					return
				}
				st, ok := a.T.Underlying().(*types.Struct)
				if !ok {
					return
				}
				for i := 0; i < st.NumFields(); i++ {
					f := st.Field(i)
					if classifySlot(f.Type()) != "vertex" || a.NonNilF[f.Name()] {
						continue
					}
					k := a.T.Obj().Name() + "." + f.Name()
					if _, seen := res.MaybeNil[k]; !seen {
						res.MaybeNil[k] = fmt.Sprintf("%s rule %d %s", gp.Name, rule.Num, rule.LHS)
					}
				}
				// a token that is present while a child slot is not known to be present (C17: the formatter may leave a
				// companion token alone only if it is absent whenever its child is)
				for i := 0; i < st.NumFields(); i++ {
					tf := st.Field(i)
					if classifySlot(tf.Type()) != "token" || !a.NonNilF[tf.Name()] {
						continue
					}
					for j := 0; j < st.NumFields(); j++ {
						cf := st.Field(j)
						absent := false
						switch classifySlot(cf.Type()) {
						case "vertex":
							absent = !a.NonNilF[cf.Name()]
						case "vertices":
							absent = !a.NonEmpty[cf.Name()]
						}
						if !absent {
							continue
						}
						k := a.T.Obj().Name() + "." + tf.Name() + "|" + cf.Name()
						if _, seen := res.TokNoChild[k]; !seen {
							res.TokNoChild[k] = fmt.Sprintf("%s rule %d %s", gp.Name, rule.Num, rule.LHS)
						}
					}
				}
			}
			var noteVal func(v gv)
			noteVal = func(v gv) {
				switch vv := v.(type) {
				case gRef:
					if vv.Obj != nil && (vv.Obj.Kind == "node" || vv.Obj.T == nil) && vv.Obj.Kind != "token" && vv.Obj.Kind != "pos" {
						for _, a := range g.altOfObj(r, vv.Obj) {
							noteAlt(a)
						}
					}
				case *gList:
					for _, e := range vv.Pre {
						noteVal(e)
					}
					for _, e := range vv.App {
						noteVal(e)
					}
					if !vv.Tok {
						for _, a := range g.elemAltsOf(r, vv) {
							noteAlt(a)
						}
					}
				case gList:
					noteVal(&vv)
				}
			}
			for _, o := range r.objs {
				if o.Kind != "node" || o.T == nil || o.T.Obj().Pkg() == nil || o.T.Obj().Pkg().Name() != "ast" {
					continue
				}
				if !o.Input {
					res.KindsBuilt[o.T.Obj().Name()] = true
				}
				st, ok := o.T.Underlying().(*types.Struct)
				if !ok {
					continue
				}
				for i := 0; i < st.NumFields(); i++ {
					f := st.Field(i)
					cl := classifySlot(f.Type())
					if cl != "vertex" && cl != "vertices" {
						continue
					}
					if v, written := o.Fields[f.Name()]; written {
						noteVal(v)
					}
				}
			}
			// --- pair signature (C10)
			sig := rule.LHS + ": " + strings.Join(rule.RHS, " ")
			res.PairSigs[sig] = append(res.PairSigs[sig], pd+" => "+g.render(r, out, 0))
		}
		if aborted != "" {
			res.OutOfSub = append(res.OutOfSub, fmt.Sprintf("rule %d %s: %s", rule.Num, rule, aborted))
			c.addOb(g.obName(gp, rule, "subset", "action-within-modelled-subset"), "subset", site, false, "the action leaves the modelled subset: "+aborted)
		}
		if want.Shape {
			// an error check that no shape of the inputs can reach is a swallowed error (C06): every
			// error-reporting call site of the action is executed on at least one path
			if reg := gp.Regions[rule.Num]; reg != nil && aborted == "" {
				reached := map[*ssa.Call]bool{}
				for _, p := range paths {
					for c := range p.Run.cbSites {
						reached[c] = true
					}
				}
				for _, site := range gp.errorSites(reg) {
					if !reached[site] {
						shapeFails[fmt.Sprintf("dead-error-site: the error report at %s cannot be reached for any shape of the right-hand side (the condition guarding it is never true where it is tested)", c.W.pos(site.Pos()))] = true
					}
				}
			}
			var fs []string
			for f := range shapeFails {
				fs = append(fs, f)
			}
			sort.Strings(fs)
			c.addOb(g.obName(gp, rule, "shape", "no-panic-and-contract"), "shape", site, len(fs) == 0, strings.Join(fs, "\n"))
		}
		if want.Conserve && !rule.HasError {
			c.addOb(g.obName(gp, rule, "conserve", "yield"), "conserve", site, len(conserveBad) == 0, strings.Join(conserveBad, "\n"))
		}
		if want.Sub {
			c.addOb(g.obName(gp, rule, "conserve", "subsequence"), "conserve", site, len(subBad) == 0, strings.Join(subBad, "\n"))
		}
		if want.Linear {
			c.addOb(g.obName(gp, rule, "linear", "no-sharing"), "linear", site, len(linearBad) == 0, strings.Join(linearBad, "\n"))
		}
		if want.Leaf {
			c.addOb(g.obName(gp, rule, "leaf", "value-is-token-text"), "leaf", site, len(leafBad) == 0, strings.Join(leafBad, "\n"))
		}
	}
	return res
}

// leafCheck: a node created here whose Value is assigned must take it from a token stored in the node
func (g *gramCtx) leafCheck(r *gRun, out gv, pd string) []string {
	var bad []string
	for _, o := range r.objs {
		if o.Input || o.Kind != "node" || o.T == nil {
			continue
		}
		v, ok := o.Fields["Value"]
		if !ok {
			continue
		}
		if bc, isCat := v.(gBytesCat); isCat {
			// concatenation: every part is the text of a token stored in the node, in slot order;
			// a literal part must be the spelling of a single-character terminal stored there
			var toks []*gObj
			for _, it := range g.Layout[typeName(o.T)] {
				if it.Kind == "tok" {
					if rf, ok := o.Fields[it.Slot].(gRef); ok {
						toks = append(toks, rf.Obj)
					}
				}
			}
			okc := len(toks) == len(bc.Parts)
			for k := 0; okc && k < len(toks); k++ {
				switch pt := bc.Parts[k].(type) {
				case gBytes:
					okc = pt.Obj == toks[k] && pt.Field == "Value"
				case gStr:
					d := toks[k].Dollar
					okc = d > 0 && r.rule.RHS[d-1] == "'"+pt.V+"'"
				default:
					okc = false
				}
			}
			if !okc {
				bad = append(bad, fmt.Sprintf("[path: %s] %s.Value = %s is not the text of the node's tokens in order", pd, o.Origin, describeG(v)))
			}
			continue
		}
		b, isB := v.(gBytes)
		if !isB || b.Field != "Value" {
			if _, isNil := v.(gNil); isNil {
				continue
			}
			bad = append(bad, fmt.Sprintf("[path: %s] %s.Value = %s is not the text of a token", pd, o.Origin, describeG(v)))
			continue
		}
		found := false
		for _, f := range o.Order {
			if rf, ok := o.Fields[f].(gRef); ok && rf.Obj == b.Obj {
				found = true
			}
		}
		if !found {
			bad = append(bad, fmt.Sprintf("[path: %s] %s.Value is the text of %s, which is not stored in the node", pd, o.Origin, b.Obj.Origin))
		}
	}
	return bad
}

// render: canonical rendering of a result (C10 pair comparison, debugging)
func (g *gramCtx) render(r *gRun, v gv, depth int) string {
	if depth > 8 {
		return "…"
	}
	switch x := v.(type) {
	case gRef:
		o := x.Obj
		if o.Kind == "pos" {
			if o.Content != nil {
				return g.render(r, o.Content, depth+1)
			}
			return o.Origin
		}
		if o.T == nil || (o.Input && !o.Opened) {
			return o.Origin
		}
		var parts []string
		st, _ := o.T.Underlying().(*types.Struct)
		for i := 0; st != nil && i < st.NumFields(); i++ {
			f := st.Field(i).Name()
			if w, ok := o.Fields[f]; ok {
				parts = append(parts, f+":"+g.render(r, w, depth+1))
			}
		}
		head := "&" + o.T.Obj().Name()
		if o.Input {
			head = o.Origin + ".(*" + o.T.Obj().Name() + ")"
		}
		return head + "{" + strings.Join(parts, ", ") + "}"
	case *gList:
		var parts []string
		for _, e := range x.Pre {
			parts = append(parts, g.render(r, e, depth+1))
		}
		if x.Base != nil {
			parts = append(parts, x.Base.Origin+"...")
		}
		for _, e := range x.App {
			parts = append(parts, g.render(r, e, depth+1))
		}
		return "[" + strings.Join(parts, ", ") + "]"
	case *gPosV:
		var parts []string
		for _, a := range x.Args {
			parts = append(parts, g.render(r, a, depth+1))
		}
		return x.Fn + "(" + strings.Join(parts, ", ") + ")"
	}
	return describeG(v)
}

var _ = token.NoPos

func debugGramRule(name string, rules []string) int {
	w, err := loadWorld("./...")
	if err != nil {
		fmt.Println(err)
		return 2
	}
	gp, err := loadGramParser(w, name)
	if err != nil {
		fmt.Println(err)
		return 2
	}
	g := newGramCtx(w, gp)
	nts, _ := g.inferNT(gp)
	for _, rs := range rules {
		var k int
		fmt.Sscan(rs, &k)
		rule := gp.G.Rules[k-1]
		fmt.Printf("rule %d: %s\n", k, rule)
		paths, skipped := gp.runRule(rule, nts, 512)
		fmt.Printf("  %d paths skipped=%v\n", len(paths), skipped)
		for _, p := range paths {
			r := p.Run
			kind := gp.G.Type[rule.LHS]
			fmt.Printf("  [%s] aborted=%q\n", strings.Join(p.Dec, ", "), p.Aborted)
			for _, f := range r.fails {
				fmt.Printf("     FAIL %s: %s\n", f.Class, f.Msg)
			}
			if p.Aborted != "" || kind == "" {
				continue
			}
			out := r.yyval[kind]
			if k == 1 {
				kind, out = "node", r.rootSet
			}
			fmt.Printf("     $$ = %s\n", g.render(r, out, 0))
			if rf, ok := out.(gRef); ok {
				for _, a := range g.altOfObj(r, rf.Obj) {
					fmt.Printf("     alt: %s\n", a)
				}
			}
			post := &yielder{g: g, r: r, post: true, seen: map[*gObj]int{}}
			fmt.Printf("     yield($$) = %s\n", atomsString(post.ofValue(kind, out)))
			pre := &yielder{g: g, r: r, post: false, seen: map[*gObj]int{}}
			var rhs []yAtom
			for i := 1; i <= len(rule.RHS); i++ {
				if rule.RHS[i-1] == "error" {
					continue
				}
				kk := r.symKind(rule.RHS[i-1])
				rhs = append(rhs, pre.ofValue(kk, r.dollars0[i][kk])...)
			}
			fmt.Printf("     yield(rhs) = %s\n", atomsString(rhs))
		}
	}
	return 0
}

func debugGramCheck(name string, classes []string) int {
	w, err := loadWorld("./...")
	if err != nil {
		fmt.Println(err)
		return 2
	}
	w.registerKeySorts()
	gp, err := loadGramParser(w, name)
	if err != nil {
		fmt.Println(err)
		return 2
	}
	g := newGramCtx(w, gp)
	c := &CheckCtx{Prop: "dbg", W: w, Assume: map[string]bool{}, Trusted: map[string]bool{}, CoverageExtra: map[string]interface{}{}}
	res := g.checkGrammar(c, gp, gramWant{Shape: true, Conserve: true, Linear: true, Pos: true, Leaf: true, Sub: true})
	g.builderObligations(c)
	t := res.Script.Solve(SolveOpts{TimeoutMs: 5000, Primary: "z3-new", Fallbacks: []string{"z3"}})
	fmt.Printf("%s: rules=%d paths=%d skipped=%d outofsubset=%d rounds=%d smt-obligations=%d solver=%.1fs problems=%v\n", name, res.Rules, res.Paths, len(res.Skipped), len(res.OutOfSub), res.Rounds, len(res.Script.Obls), t, g.Problems)
	want := map[string]bool{}
	for _, cl := range classes {
		want[cl] = true
	}
	cnt := map[string][2]int{}
	for _, o := range c.Extra {
		x := cnt[o.Class]
		x[0]++
		if o.Status != "unsat" {
			x[1]++
			if len(want) == 0 || want[o.Class] {
				fmt.Printf("FAIL %s\n     %s\n     %s\n", o.Name, o.Site, strings.ReplaceAll(o.Output, "\n", "\n     "))
			}
		}
		cnt[o.Class] = x
	}
	for _, o := range res.Script.Obls {
		x := cnt["smt:"+o.Class]
		x[0]++
		if o.Status != "unsat" {
			x[1]++
			if len(want) == 0 || want[o.Class] {
				fmt.Printf("FAIL(%s) %s\n     %s\n     %s\n     model: %v\n", o.Status, o.Name, o.Site, o.Note, o.Model)
			}
		}
		cnt["smt:"+o.Class] = x
	}
	for _, s := range res.Skipped {
		fmt.Println("SKIPPED", s)
	}
	for _, k := range sortedKeys(cnt) {
		fmt.Printf("  %-14s %d obligations, %d failed\n", k, cnt[k][0], cnt[k][1])
	}
	return 0
}

// ---------------------------------------------------------------------------
// property drivers

type gramRun struct {
	G    *gramCtx
	GP   *gramParser
	Res  *gramResult
}

// addGram runs E-GRAM over both grammars with the requested obligation classes.
func (c *CheckCtx) addGram(want gramWant) map[string]*gramRun {
	out := map[string]*gramRun{}
	for _, name := range []string{"php7", "php5"} {
		gp, err := loadGramParser(c.W, name)
		if err != nil {
			c.addOb("internal/"+name+"/subset/grammar-loads", "subset", "", false, err.Error())
			continue
		}
		g := newGramCtx(c.W, gp)
		for _, p := range g.Problems {
			c.addOb("internal/"+name+"/subset/layouts: "+p, "subset", "", false, p)
		}
		res := g.checkGrammar(c, gp, want)
		out[name] = &gramRun{g, gp, res}
		if len(res.Script.Obls) > 0 {
			c.Reports = append(c.Reports, &FuncReport{Name: "internal/" + name + ".grammar-actions", Pkg: gp.Pkg, Key: "grammar-actions", Script: res.Script})
		}
		var bounded []string
		for sym := range gp.Explicit {
			bounded = append(bounded, sym)
		}
		sort.Strings(bounded)
		info := map[string]interface{}{"rules": res.Rules, "paths": res.Paths, "nt_fixpoint_rounds": res.Rounds, "non_terminal_contracts_inferred": len(res.NTs),
			"unreachable_rules": res.Skipped, "smt_position_obligations": len(res.Script.Obls)}
		if len(bounded) > 0 {
			info["bounded_list_symbols"] = bounded
			c.Bounded = append(c.Bounded, BoundedCheck{Name: "internal/" + name + " member-access chain rules", Bound: fmt.Sprintf("lists of the symbols %s are enumerated element by element up to %d elements (loops over them unrolled); obligations of rules that consume them hold for these lengths only", strings.Join(bounded, ", "), gramListBound), Cases: res.Paths})
		}
		c.CoverageExtra["gram:"+name] = info
		if len(c.Samples) < 6 {
			if ni := res.NTs["while_statement"]; ni != nil {
				c.Samples = append(c.Samples, map[string]interface{}{"grammar": name, "inferred_contract_of": "while_statement", "contract": ni.String()})
			}
		}
	}
	// the standing assumption about the driver's stack, backed per grammar by a table lemma over the tables as they stand
	backed := true
	for _, name := range []string{"php7", "php5"} {
		r := out[name]
		dv := c.W.driverTables(modPath + "/internal/" + name)
		if r == nil || dv == nil {
			backed = false
			continue
		}
		if ok, _ := dv.lrDepthLemma(); !ok {
			backed = false
			continue
		}
		ok, detail := dv.symbolsOnStackLemma(r.GP)
		c.Tables = append(c.Tables, fmt.Sprintf("%s symbols-on-stack: %v - %s", name, ok, detail))
		if !ok {
			backed = false
			c.Extra = append(c.Extra, &Obligation{Name: "internal/" + name + ".(*yyParserImpl).Parse/table/symbols-on-stack", Class: "table", Status: "sat", Solver: "table-evaluation", Props: []string{c.Prop},
				Output: "on the tables as they stand a reduction can find a value of another symbol in its window: " + detail})
		}
	}
	if backed {
		c.assume("goyacc LR driver: a stack slot holds a value produced for the symbol that labels its state - backed by the table lemma symbols-on-stack (exhaustive over the tables as they stand and the rules of the grammar file: goto pushes land in states whose accessing symbol is the reduced non-terminal; every state in the window of a reduction has the rule's symbol as accessing symbol; class table, a model of the driver's stack, not a code-level proof; the driver code itself is verified by E-DRV under C01/C06); distinct stack slots hold disjoint trees (induction hypothesis of the linear obligations)")
	} else {
		c.assume("goyacc LR driver: a stack slot holds a value produced for the symbol that labels its state; distinct stack slots hold disjoint trees (induction hypothesis of the linear obligations)")
	}
	c.assume("E-GRAM abstract interpreter, non-terminal contract inference and yield normaliser are part of the trusted base (guarded by the seeded-change corpus)")
	return out
}

func (c *CheckCtx) gramPairs(runs map[string]*gramRun) {
	a, b := runs["php7"], runs["php5"]
	if a == nil || b == nil {
		return
	}
	c.gramSlotTerminals(a, b)
	norm := func(ss []string) []string {
		var out []string
		for _, s := range ss {
			s = strings.ReplaceAll(s, "internal/php7.", "")
			s = strings.ReplaceAll(s, "internal/php5.", "")
			out = append(out, s)
		}
		sort.Strings(out)
		return out
	}
	n := 0
	for _, sig := range sortedKeys(a.Res.PairSigs) {
		pb, ok := b.Res.PairSigs[sig]
		if !ok {
			continue
		}
		n++
		ra, rb := norm(a.Res.PairSigs[sig]), norm(pb)
		same := len(ra) == len(rb)
		var diff []string
		if same {
			for i := range ra {
				if ra[i] != rb[i] {
					same = false
					diff = append(diff, "php7: "+truncate(ra[i], 400), "php5: "+truncate(rb[i], 400))
					break
				}
			}
		} else {
			diff = append(diff, fmt.Sprintf("php7 has %d paths, php5 has %d", len(ra), len(rb)))
		}
		c.addOb("grammars/pair/"+sig, "pair", "", same, "the shared production builds different results in the two grammars:\n"+strings.Join(diff, "\n"))
	}
	c.CoverageExtra["shared_productions"] = n
}

// gramSlotTerminals: for every token slot of every node kind that both grammars fill, the terminals
// stored there by php5 actions that php7 also knows must be stored there by php7 actions too, and
// vice versa ("the same node kinds ... the same tokens"): a keyword token that one grammar puts into
// another construct's node (e.g. `and` into the node of `&&`) shows up as a terminal the other
// grammar never stores in that slot.
func (c *CheckCtx) gramSlotTerminals(a, b *gramRun) {
	known := func(r *gramRun, term string) bool { return r.GP.G.IsTerminal(term) }
	// named exceptions: `//@ gram slot-terminal-only <Kind.Slot> <terminal> : reason` (syntax one language
	// version has and the other has not, or a terminal that reaches the slot through a non-terminal)
	except := map[string]bool{}
	for _, pk := range []string{"internal/php7", "internal/php5"} {
		if cf := c.W.CFiles[modPath+"/"+pk]; cf != nil {
			for _, d := range cf.Directives {
				f := strings.Fields(d)
				if len(f) >= 4 && f[0] == "gram" && f[1] == "slot-terminal-only" {
					except[f[2]+" "+f[3]] = true
				}
			}
		}
	}
	for _, k := range sortedKeys(a.Res.SlotTerms) {
		tb, ok := b.Res.SlotTerms[k]
		if !ok {
			continue
		}
		ta := a.Res.SlotTerms[k]
		var bad []string
		for t, where := range ta {
			if _, ok := tb[t]; !ok && known(b, t) && !except[k+" "+t] {
				bad = append(bad, fmt.Sprintf("php7 stores %s in %s (%s), php5 never does", t, k, where))
			}
		}
		for t, where := range tb {
			if _, ok := ta[t]; !ok && known(a, t) && !except[k+" "+t] {
				bad = append(bad, fmt.Sprintf("php5 stores %s in %s (%s), php7 never does", t, k, where))
			}
		}
		sort.Strings(bad)
		c.addOb("grammars/slot-terminals/"+k, "pair", "", len(bad) == 0, strings.Join(bad, "\n"))
	}
}
