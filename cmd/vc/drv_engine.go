package main

import (
	"fmt"
	"go/types"
	"os"
	"sort"
	"strings"
	"sync"

	"golang.org/x/tools/go/ssa"
)

// drvFact is a fact about the constant tables of the generated parser, stated in the contract file
// (`//@ drv table <name> : <expr>`), decided by exhaustive evaluation of the arrays as they stand in
// the .go file (class `table`) and then assumed in every region of the driver proof.
type drvFact struct {
	name string
	expr *CExpr
	ok   bool
	why  string
}

// driver state that the engine adds on top of the loader
type drvState struct {
	facts      []*drvFact
	localTop   int64
	actionKeys map[string]bool // heap keys the action switch may write (frame of the abstraction)
	frameErr   []string
	constG     map[string]Val
	lrAssumed  bool
	lrText     string
	parserT    *types.Named
	tlen       map[string]int64
	lrGraph    *lrGraph
	windowErr  []string
	windowChecked int
	lrDone     bool
	lrOK       bool
	lrDetail   string
}

func newDrvEngine(w *World, name string, props []string) (*scanEngine, error) {
	dv, err := loadDriver(w, name)
	if err != nil {
		return nil, err
	}
	fn := dv.fn
	se := &scanEngine{w: w, fn: fn, cuts: map[*ssa.BasicBlock]*scanCut{}, locals: map[string]*ssa.Alloc{}, localPtr: map[*ssa.Alloc]PtrV{},
		entry: map[int64]bool{}, props: props, stats: map[string]int{}, inline: map[string]bool{}, drv: dv, structRef: map[*ssa.Alloc]*Term{}, alwaysFull: true}
	se.prefix = "internal/" + name + ".(*yyParserImpl).Parse"
	se.con = w.contractFor(fn)
	cf := w.CFiles[dv.pkg]
	if cf == nil {
		return nil, fmt.Errorf("no contract file for %s", dv.pkg)
	}
	dv.tlen = map[string]int64{}
	for t, a := range dv.tables {
		dv.tlen[t] = int64(len(a))
	}
	for _, d := range cf.Directives {
		f := strings.Fields(d)
		if len(f) < 3 || f[0] != "drv" {
			continue
		}
		rest := strings.TrimSpace(d[strings.Index(d, f[1])+len(f[1]):])
		switch f[1] {
		case "inv":
			se.tmplCut = append(se.tmplCut, rest)
		case "inv-at":
			se.tmplAt = append(se.tmplAt, rest)
		case "post":
			e, err := parseCExpr(rest)
			if err != nil {
				return nil, fmt.Errorf("drv post %q: %v", rest, err)
			}
			se.post = append(se.post, e)
		case "table":
			i := strings.Index(rest, ":")
			if i < 0 {
				return nil, fmt.Errorf("drv table %q: expected `<name> : <expr>`", rest)
			}
			e, err := parseCExpr(strings.TrimSpace(rest[i+1:]))
			if err != nil {
				return nil, fmt.Errorf("drv table %q: %v", rest, err)
			}
			dv.facts = append(dv.facts, &drvFact{name: strings.TrimSpace(rest[:i]), expr: e})
		case "variant-at":
			i := strings.Index(rest, ":")
			if i < 0 {
				return nil, fmt.Errorf("drv variant-at %q: expected `<cut> : <expr>`", rest)
			}
			e, err := parseCExpr(strings.TrimSpace(rest[i+1:]))
			if err != nil {
				return nil, fmt.Errorf("drv variant-at %q: %v", rest, err)
			}
			if se.variants == nil {
				se.variants = map[string]*CExpr{}
			}
			se.variants[strings.TrimSpace(rest[:i])] = e
		case "lr-discipline":
			dv.lrAssumed = true
			dv.lrText = rest
		}
	}
	// table facts: decided on the arrays as they stand
	for _, f := range dv.facts {
		f.ok, f.why = dv.evalFact(f.expr)
	}
	// cuts on the reduced graph (actions and the switch chain replaced by the edge dispatch -> done)
	succs := func(b *ssa.BasicBlock) []*ssa.BasicBlock {
		if b == dv.dispatch {
			return []*ssa.BasicBlock{dv.done}
		}
		return b.Succs
	}
	inG := func(b *ssa.BasicBlock) bool { return !dv.inAction[b] && (!dv.inSwitch[b] || b == dv.dispatch) }
	cutSet := map[*ssa.BasicBlock]bool{fn.Blocks[0]: true}
	state := map[*ssa.BasicBlock]int{}
	var dfs func(b *ssa.BasicBlock)
	dfs = func(b *ssa.BasicBlock) {
		state[b] = 1
		for _, s := range succs(b) {
			if !inG(s) {
				continue
			}
			switch state[s] {
			case 0:
				dfs(s)
			case 1:
				cutSet[s] = true
			}
		}
		state[b] = 2
	}
	dfs(fn.Blocks[0])
	var bs []*ssa.BasicBlock
	for b := range cutSet {
		bs = append(bs, b)
	}
	sort.Slice(bs, func(i, j int) bool { return bs[i].Index < bs[j].Index })
	names := map[string]int{}
	for _, b := range bs {
		n := b.Comment
		if n == "" {
			n = "b"
		}
		names[n]++
		if names[n] > 1 || strings.Contains(n, ".") {
			n = fmt.Sprintf("%s@%d", n, names[n])
		}
		c := &scanCut{block: b, name: n, preds: map[*scanCut]bool{}}
		se.cuts[b] = c
		se.order = append(se.order, c)
	}
	// locals: cells for scalar/slice locals, fixed negative refs for struct-typed ones (no real object has a negative ref)
	k := int64(0)
	neg := int64(-1000)
	dupNames := map[string]bool{}
	for _, b := range fn.Blocks {
		if !inG(b) {
			continue
		}
		for _, in := range b.Instrs {
			a, ok := in.(*ssa.Alloc)
			if !ok {
				continue
			}
			t := a.Type().(*types.Pointer).Elem()
			if _, isS := isStruct(t); isS {
				if b != fn.Blocks[0] {
					return nil, fmt.Errorf("struct-typed local %s outside the entry block of %s", a.Comment, fn)
				}
				se.structRef[a] = mkInt(neg)
				neg -= structSize(t) + 4
				if a.Comment != "" {
					se.locals["&"+a.Comment] = a // not a cell: bound separately (binds)
					delete(se.locals, "&"+a.Comment)
				}
				continue
			}
			if _, isA := t.Underlying().(*types.Array); isA {
				continue
			}
			k++
			se.localPtr[a] = PtrV{Kind: "cell", Key: cellKey(t), Ref: mkInt(k), T: t}
			if a.Comment != "" {
				if _, dup := se.locals[a.Comment]; dup && b != fn.Blocks[0] {
					dupNames[a.Comment] = true
				} else {
					se.locals[a.Comment] = a
				}
			}
		}
		for _, in := range b.Instrs {
			if _, isD := in.(*ssa.Defer); isD && b != fn.Blocks[0] {
				return nil, fmt.Errorf("defer outside the entry block of %s", fn)
			}
		}
	}
	dv.localTop = k
	for n := range dupNames {
		delete(se.locals, n)
	}
	for _, p := range se.localPtr {
		_ = p.Ref.String()
	}
	for _, r := range se.structRef {
		_ = r.String()
	}
	_ = tTrue.String()
	_ = tFalse.String()
	if tn, ok := w.PkgByPath[dv.pkg].Types.Scope().Lookup("Parser").(*types.TypeName); ok {
		dv.parserT, _ = tn.Type().(*types.Named)
	}
	dv.constG = dv.constGlobals()
	dv.actionFrame(se)
	return se, nil
}


// constGlobals: unexported package-level scalars that only the package initialiser assigns (a constant) and that no
// function of the package stores to or takes the address of: their value is that constant for ever.
func (dv *driver) constGlobals() map[string]Val {
	out := map[string]Val{}
	for _, name := range []string{"yyDebug", "yyErrorVerbose"} {
		g, ok := dv.spkg.Members[name].(*ssa.Global)
		if !ok {
			continue
		}
		var initVal *ssa.Const
		bad := false
		for _, fn := range dv.allFuncs() {
			dv.scanGlobalUses(fn, g, &initVal, &bad)
		}
		if bad {
			continue
		}
		t := g.Type().(*types.Pointer).Elem()
		key := "G:" + shortPkg(dv.pkg) + "." + name
		switch bt := t.Underlying().(type) {
		case *types.Basic:
			if bt.Info()&types.IsBoolean != 0 {
				v := false
				if initVal != nil && initVal.Value != nil {
					v = initVal.Value.String() == "true"
				}
				out[key] = mkBool(v)
			} else if bt.Info()&types.IsInteger != 0 {
				n := int64(0)
				if initVal != nil && initVal.Value != nil {
					n = initVal.Int64()
				}
				out[key] = mkInt(n)
			}
		}
	}
	return out
}

func (dv *driver) allFuncs() []*ssa.Function {
	seen := map[*ssa.Function]bool{}
	var out []*ssa.Function
	var add func(fn *ssa.Function)
	add = func(fn *ssa.Function) {
		if fn == nil || seen[fn] || fn.Pkg != dv.spkg {
			return
		}
		seen[fn] = true
		out = append(out, fn)
		for _, a := range fn.AnonFuncs {
			add(a)
		}
	}
	for _, m := range dv.spkg.Members {
		switch mm := m.(type) {
		case *ssa.Function:
			add(mm)
		case *ssa.Type:
			for _, t := range []types.Type{mm.Type(), types.NewPointer(mm.Type())} {
				ms := dv.spkg.Prog.MethodSets.MethodSet(t)
				for i := 0; i < ms.Len(); i++ {
					add(dv.spkg.Prog.MethodValue(ms.At(i)))
				}
			}
		}
	}
	return out
}

func (dv *driver) scanGlobalUses(fn *ssa.Function, g *ssa.Global, initVal **ssa.Const, bad *bool) {
	for _, b := range fn.Blocks {
		for _, in := range b.Instrs {
			for _, op := range in.Operands(nil) {
				if *op != ssa.Value(g) {
					continue
				}
				switch i := in.(type) {
				case *ssa.UnOp:
					// load
				case *ssa.Store:
					c, isC := i.Val.(*ssa.Const)
					if i.Addr == ssa.Value(g) && fn.Name() == "init" && isC && *initVal == nil {
						*initVal = c
					} else {
						if os.Getenv("VC_DRV_TRACE") != "" {
							fmt.Printf("global %s: store %s in %s\n", g.Name(), in, fn)
						}
						*bad = true
					}
				default:
					if os.Getenv("VC_DRV_TRACE") != "" {
						fmt.Printf("global %s: use %s in %s\n", g.Name(), in, fn)
					}
					*bad = true
				}
			}
		}
	}
}

// actionFrame computes the frame of the action switch from the real code of all `case k` regions:
// the heap keys they may write (stores and callee write sets), and checks that they assign no driver
// local other than yyVAL and yyDollar, no field `yys`, and nothing of the yyParserImpl.
func (dv *driver) actionFrame(se *scanEngine) {
	keys := map[string]bool{}
	w := dv.w
	w.mu.Lock()
	defer w.mu.Unlock()
	rootAlloc := func(v ssa.Value) *ssa.Alloc {
		for {
			switch a := v.(type) {
			case *ssa.Alloc:
				return a
			case *ssa.FieldAddr:
				v = a.X
			default:
				return nil
			}
		}
	}
	var blocks []*ssa.BasicBlock
	for b := range dv.inAction {
		blocks = append(blocks, b)
	}
	sort.Slice(blocks, func(i, j int) bool { return blocks[i].Index < blocks[j].Index })
	for _, b := range blocks {
		for _, in := range b.Instrs {
			switch i := in.(type) {
			case *ssa.Return:
				dv.frameErr = append(dv.frameErr, fmt.Sprintf("return inside an action (block %d)", b.Index))
			case *ssa.Store:
				if a := rootAlloc(i.Addr); a != nil {
					if a.Parent() == dv.fn && a.Block() == dv.fn.Blocks[0] {
						switch a.Comment {
						case "yyDollar":
						case "yyVAL":
							if fa, ok := i.Addr.(*ssa.FieldAddr); ok {
								st, _ := isStruct(fa.X.Type().Underlying().(*types.Pointer).Elem())
								if st.Field(fa.Field).Name() == "yys" {
									dv.frameErr = append(dv.frameErr, "an action assigns yyVAL.yys")
								}
							} else {
								dv.frameErr = append(dv.frameErr, "an action assigns yyVAL as a whole")
							}
						default:
							dv.frameErr = append(dv.frameErr, fmt.Sprintf("an action assigns the driver local %s", a.Comment))
						}
					}
					continue // other allocs are the action's own temporaries
				}
				if fa, ok := i.Addr.(*ssa.FieldAddr); ok {
					bt := fa.X.Type().Underlying().(*types.Pointer).Elem()
					if n, ok := bt.(*types.Named); ok && n.Obj().Pkg() != nil && n.Obj().Pkg().Path() == dv.pkg {
						sst, _ := isStruct(bt)
						switch {
						case n.Obj().Name() == "yyParserImpl":
							dv.frameErr = append(dv.frameErr, fmt.Sprintf("an action stores into the yyParserImpl: %s in block %d", i, b.Index))
						case n.Obj().Name() == "yySymType" && sst.Field(fa.Field).Name() == "yys":
							dv.frameErr = append(dv.frameErr, fmt.Sprintf("an action stores into the state field of a stack slot: %s in block %d", i, b.Index))
						}
					}
				}
				if ia, ok := i.Addr.(*ssa.IndexAddr); ok {
					if sl, ok := ia.X.Type().Underlying().(*types.Slice); ok {
						if n, ok := sl.Elem().(*types.Named); ok && n.Obj().Name() == "yySymType" {
							dv.frameErr = append(dv.frameErr, "an action stores into a stack slot")
						}
					}
				}
				w.addrKeys(i.Addr, keys)
			case *ssa.MapUpdate:
				mapWriteKeys(i.Map.Type(), keys)
			case ssa.CallInstruction:
				cc := i.Common()
				if bi, ok := cc.Value.(*ssa.Builtin); ok {
					switch bi.Name() {
					case "append", "copy":
						if sl, ok := cc.Args[0].Type().Underlying().(*types.Slice); ok {
							if _, isS := isStruct(sl.Elem()); isS {
								structKeys(sl.Elem(), keys)
							} else {
								keysForType(sl.Elem(), elemKey(sl.Elem()), keys)
							}
						}
					case "delete":
						mapWriteKeys(cc.Args[0].Type(), keys)
					}
					continue
				}
				if !cc.IsInvoke() && cc.StaticCallee() == nil {
					keys["G:ghost.cbcount"] = true
					keys["G:ghost.cbarg"] = true
				}
				for _, callee := range w.calleesOf(cc) {
					for k := range w.writeKeysLocked(w.mapCallee(callee)) {
						keys[k] = true
					}
				}
			}
		}
	}
	for k := range keys {
		if strings.HasPrefix(k, "!") {
			delete(keys, k)
			continue
		}
		if strings.HasPrefix(k, "?") {
			dv.frameErr = append(dv.frameErr, "an action writes through a pointer of unknown origin: "+k)
		}
		if strings.Contains(k, "yySymType.yys") || strings.Contains(k, ".yyParserImpl.") {
			dv.frameErr = append(dv.frameErr, "the actions' write set contains "+k)
		}
	}
	dv.actionKeys = keys
	dv.windowCheck()
}

// windowCheck: every action begins with `yyDollar = yyS[yypt-N : yypt+1]`; N must be the length yyR2[k] of its rule
// (so that the safety of the slice expression is exactly the driver's obligation `action-window` at the dispatch).
func (dv *driver) windowCheck() {
	r2 := dv.tables["yyR2"]
	checked := 0
	var ks []int
	for k := range dv.ruleEntry {
		ks = append(ks, k)
	}
	sort.Ints(ks)
	for _, k := range ks {
		b := dv.ruleEntry[k]
		if k < 1 || k >= len(r2) {
			dv.windowErr = append(dv.windowErr, fmt.Sprintf("case %d has no entry in yyR2", k))
			continue
		}
		found := false
		for _, in := range b.Instrs {
			sl, ok := in.(*ssa.Slice)
			if !ok {
				continue
			}
			if st, ok := sl.X.Type().Underlying().(*types.Slice); !ok || !strings.HasSuffix(typeName(st.Elem()), "yySymType") {
				continue
			}
			found = true
			lo, okL := sl.Low.(*ssa.BinOp)
			hi, okH := sl.High.(*ssa.BinOp)
			if !okL || !okH || lo.Op.String() != "-" || hi.Op.String() != "+" {
				dv.windowErr = append(dv.windowErr, fmt.Sprintf("case %d: the window is not yyS[yypt-N : yypt+1]", k))
				break
			}
			n, okN := lo.Y.(*ssa.Const)
			one, okO := hi.Y.(*ssa.Const)
			isPt := func(v ssa.Value) bool {
				ld, ok := v.(*ssa.UnOp)
				if !ok {
					return false
				}
				a, ok := ld.X.(*ssa.Alloc)
				return ok && a.Comment == "yypt"
			}
			if !okN || !okO || !isPt(lo.X) || !isPt(hi.X) || one.Int64() != 1 {
				dv.windowErr = append(dv.windowErr, fmt.Sprintf("case %d: the window is not yyS[yypt-N : yypt+1]", k))
				break
			}
			if n.Int64() != r2[k] {
				dv.windowErr = append(dv.windowErr, fmt.Sprintf("case %d slices %d stack entries but yyR2[%d] = %d", k, n.Int64(), k, r2[k]))
			}
			checked++
			break
		}
		if !found && r2[k] != 0 {
			// an action of a rule with a non-empty right-hand side that never builds its window reads no $i: fine
			continue
		}
	}
	dv.windowChecked = checked
}

// driverTables returns the table facts of a generated parser package (nil for other packages); cached.
func (w *World) driverTables(pkg string) *driver {
	name := ""
	switch pkg {
	case modPath + "/internal/php7":
		name = "php7"
	case modPath + "/internal/php5":
		name = "php5"
	default:
		return nil
	}
	drvCacheMu.Lock()
	defer drvCacheMu.Unlock()
	if dv, ok := drvCache[w][name]; ok {
		return dv
	}
	if drvCache[w] == nil {
		drvCache[w] = map[string]*driver{}
	}
	se, err := newDrvEngine(w, name, nil)
	if err != nil {
		drvCache[w][name] = nil
		return nil
	}
	drvCache[w][name] = se.drv
	return se.drv
}

var (
	drvCacheMu sync.Mutex
	drvCache   = map[*World]map[string]*driver{}
)

// setupTables makes the parse tables, their facts and the package constants available to an executor.
func (dv *driver) setupTables(x *Exec) {
	x.roTables = map[string]bool{}
	for t, a := range dv.tables {
		if len(a) > 0 {
			x.roTables[t] = true
		}
	}
	x.constGlobal = dv.constG
	if dv.parserT != nil {
		x.ifaceImpl = map[string]*types.Named{"yyLexer": dv.parserT}
	}
	x.extraBinds = dv.tableBinds()
	for _, f := range dv.facts {
		if !f.ok {
			continue
		}
		ifc := &frameCtx{pkgPath: dv.pkg, fn: dv.fn, params: map[string]TV{}, env: map[ssa.Value]Val{}}
		st := &State{Guard: tTrue, Heap: map[string]*Term{}, Alloc: mkInt(0)}
		for _, cj := range conjuncts(x.evalBool(ifc, st, f.expr, dv.tableBinds())) {
			x.Sc.AssertTop(cj)
		}
		x.Assumed["table fact "+f.name+" of "+dv.name+".go (decided by exhaustive evaluation of the arrays as they stand)"] = true
	}
}

// setup configures the symbolic executor of one region for the driver.
func (dv *driver) setup(se *scanEngine, x *Exec) {
	dv.setupTables(x)
	x.skipStruct = se.structRef
	x.closures = map[ssa.Value]*ssa.MakeClosure{}
	x.assumeReq = func(callee string, r *CExpr) bool {
		if strings.Contains(r.String(), "lexinv(") {
			x.Assumed["object invariant of the scanner: lexinv(p.Lexer) holds whenever the driver calls Parser.Lex (established by NewLexer, preserved by Lex: both proved; Lexer's fields are unexported, so only internal/scanner writes them)"] = true
			return true
		}
		return false
	}
	x.afterInstr = func(fc *frameCtx, st *State, in ssa.Instruction) {
		if !dv.lrAssumed {
			return
		}
		s, ok := in.(*ssa.Store)
		if !ok {
			return
		}
		a, ok := s.Addr.(*ssa.Alloc)
		if !ok || a.Comment != "yyp" {
			return
		}
		bo, ok := s.Val.(*ssa.BinOp)
		if !ok || bo.Op.String() != "-" {
			return
		}
		y := bo.Y
		for {
			if cv, isC := y.(*ssa.Convert); isC {
				y = cv.X
				continue
			}
			if ct, isC := y.(*ssa.ChangeType); isC {
				y = ct.X
				continue
			}
			break
		}
		ld, ok := y.(*ssa.UnOp)
		if !ok {
			return
		}
		ia, ok := ld.X.(*ssa.IndexAddr)
		if !ok {
			return
		}
		if g, ok := ia.X.(*ssa.Global); !ok || g.Name() != "yyR2" {
			return
		}
		v := x.operand(fc, s.Val, nil).(*Term)
		x.Sc.Assert(tImp(st.Guard, tGe(v, mkInt(0))))
		x.Assumed["LR stack discipline (goyacc): when the driver reduces by rule r the stack holds at least yyR2[r] entries above its bottom ("+dv.lrText+"); backed by the table lemma lr-depth (exhaustive fixpoint over the tables as they stand), not by the code-level proof"] = true
	}
	x.onCall = func(cst *State, callee *ssa.Function, args []Val) {
		if callee.Name() == "Error" && callee.Signature.Recv() != nil && strings.HasSuffix(funcPkgPath(callee), dv.pkg) {
			h := x.heapGet(cst, "G:ghost.errcalls", SArrII)
			x.heapSet(cst, "G:ghost.errcalls", tStore(h, mkInt(0), tAdd(tSelect(h, mkInt(0)), mkInt(1))))
		}
	}
}

func (dv *driver) tableBinds() binds {
	b := binds{}
	for t, n := range dv.tlen {
		b["n_"+t] = TV{mkInt(n), tInt}
	}
	return b
}

// abstractActions replaces the action switch by its frame: the heap keys in the actions' write set are
// havocked, yyVAL's value fields and yyDollar are havocked, the allocation counter advances.
func (dv *driver) abstractActions(wk *scanWalker, st *State) {
	x, se := wk.x, wk.se
	if len(dv.frameErr) > 0 {
		oos("frame of the action switch: %s", strings.Join(dv.frameErr, "; "))
	}
	// the window of the right-hand side: every action slices yyS[yypt-yyR2[yynt] : yypt+1] (windowCheck); its bounds
	// are the driver's obligation
	if apt, ok := se.locals["yypt"]; ok {
		if ant, ok2 := se.locals["yynt"]; ok2 {
			if ayS, ok3 := se.locals["yyS"]; ok3 {
				pt := x.loadQuiet(st, se.localPtr[apt]).(*Term)
				nt := x.loadQuiet(st, se.localPtr[ant]).(*Term)
				sv := x.loadQuiet(st, se.localPtr[ayS]).(SliceV)
				x.Sc.DeclareFun("uf_yyR2", []string{SInt}, SInt)
				goal := tAnd(tLe(mkApp("uf_yyR2", SInt, nt), pt), tLe(tAdd(pt, mkInt(1)), sv.Cap))
				x.oblige(st, "slice", "action-window: yyS[yypt-yyR2[yynt] : yypt+1]", dv.dispatch.Instrs[0].Pos(), goal, nil)
			}
		}
	}
	for _, k := range sortedKeys(dv.actionKeys) {
		srt := x.sortOfKey(k)
		if srt == "" {
			if h, ok := st.Heap[k]; ok {
				srt = h.sort
			} else {
				continue // never read by the driver
			}
		}
		st.Heap[k] = x.Sc.Fresh("Hact_"+sanitize(k), srt)
	}
	for a, ref := range se.structRef {
		if a.Comment != "yyVAL" {
			continue
		}
		t := a.Type().(*types.Pointer).Elem()
		sst, _ := isStruct(t)
		for f := 0; f < sst.NumFields(); f++ {
			if sst.Field(f).Name() == "yys" {
				continue
			}
			for _, c := range compsOf(sst.Field(f).Type()) {
				key := fieldKey(t, sst, f) + c.Suffix
				h := x.heapGet(st, key, arrSort(c.Sort))
				x.heapSet(st, key, tStore(h, ref, x.Sc.Fresh("yyVAL_"+sst.Field(f).Name(), c.Sort)))
			}
		}
	}
	if a, ok := se.locals["yyDollar"]; ok {
		p := se.localPtr[a]
		x.storeLoc(st, p, x.freshVal(st, "yyDollar", p.T))
	}
	na := x.Sc.Fresh("alloc_act", SInt)
	x.Sc.Assert(tImp(st.Guard, tGe(na, st.Alloc)))
	st.Alloc = na
}

// ---------------------------------------------------------------------------
// concrete evaluation of table facts

type factEnv map[string]int64

func (dv *driver) evalFact(e *CExpr) (ok bool, why string) {
	defer func() {
		if r := recover(); r != nil {
			ok, why = false, fmt.Sprint(r)
		}
	}()
	env := factEnv{}
	for t, n := range dv.tlen {
		env["n_"+t] = n
	}
	v, w := dv.evalB(e, env)
	return v, w
}

func (dv *driver) constOf(name string) (int64, bool) {
	if c, ok := dv.spkg.Members[name].(*ssa.NamedConst); ok {
		return c.Value.Int64(), true
	}
	return 0, false
}

func (dv *driver) evalI(e *CExpr, env factEnv) int64 {
	switch e.Kind {
	case "int":
		return e.IVal
	case "ident":
		if v, ok := env[e.Name]; ok {
			return v
		}
		if v, ok := dv.constOf(e.Name); ok {
			return v
		}
		panic("table fact: unknown identifier " + e.Name)
	case "unary":
		if e.Op == "-" {
			return -dv.evalI(e.Args[0], env)
		}
	case "binary":
		a, b := dv.evalI(e.Args[0], env), dv.evalI(e.Args[1], env)
		switch e.Op {
		case "%":
			if b == 0 {
				panic("table fact: modulo zero")
			}
			return a % b
		case "+":
			return a + b
		case "-":
			return a - b
		case "*":
			return a * b
		}
	case "call":
		if strings.HasPrefix(e.Name, "uf_") {
			t := dv.tables[strings.TrimPrefix(e.Name, "uf_")]
			i := dv.evalI(e.Args[0], env)
			if t == nil || i < 0 || i >= int64(len(t)) {
				panic(fmt.Sprintf("table fact: %s(%d) is outside the table", e.Name, i))
			}
			return t[i]
		}
	}
	panic("table fact: unsupported integer expression " + e.String())
}

func (dv *driver) evalB(e *CExpr, env factEnv) (bool, string) {
	switch e.Kind {
	case "bool":
		return e.IVal != 0 || e.Name == "true", ""
	case "unary":
		if e.Op == "!" {
			v, _ := dv.evalB(e.Args[0], env)
			return !v, ""
		}
	case "binary":
		switch e.Op {
		case "&&":
			a, w := dv.evalB(e.Args[0], env)
			if !a {
				return false, w
			}
			return dv.evalB(e.Args[1], env)
		case "||":
			a, _ := dv.evalB(e.Args[0], env)
			if a {
				return true, ""
			}
			return dv.evalB(e.Args[1], env)
		case "==>":
			a, _ := dv.evalB(e.Args[0], env)
			if !a {
				return true, ""
			}
			return dv.evalB(e.Args[1], env)
		case "==", "!=", "<", "<=", ">", ">=":
			a, b := dv.evalI(e.Args[0], env), dv.evalI(e.Args[1], env)
			var r bool
			switch e.Op {
			case "==":
				r = a == b
			case "!=":
				r = a != b
			case "<":
				r = a < b
			case "<=":
				r = a <= b
			case ">":
				r = a > b
			case ">=":
				r = a >= b
			}
			if !r {
				return false, fmt.Sprintf("%s is false (%d vs %d)", e.String(), a, b)
			}
			return true, ""
		}
	case "forall":
		// the body must be `guard ==> ...` where the guard bounds every variable by constants: lo <= v && v < hi
		body := e.Args[len(e.Args)-1]
		if body.Kind != "binary" || body.Op != "==>" {
			panic("table fact: a quantified fact must have the form forall v :: lo <= v && v < hi ==> ...")
		}
		type rng struct{ lo, hi int64 }
		rs := map[string]*rng{}
		var collect func(g *CExpr)
		collect = func(g *CExpr) {
			if g.Kind == "binary" && g.Op == "&&" {
				collect(g.Args[0])
				collect(g.Args[1])
				return
			}
			if g.Kind != "binary" {
				return
			}
			isVar := func(x *CExpr) bool {
				if x.Kind != "ident" {
					return false
				}
				for _, v := range e.Vars {
					if v == x.Name {
						return true
					}
				}
				return false
			}
			closed := func(x *CExpr) (v int64, ok bool) {
				defer func() {
					if recover() != nil {
						ok = false
					}
				}()
				return dv.evalI(x, env), true
			}
			get := func(n string) *rng {
				if rs[n] == nil {
					rs[n] = &rng{lo: -1 << 62, hi: 1 << 62}
				}
				return rs[n]
			}
			l, r := g.Args[0], g.Args[1]
			switch {
			case (g.Op == "<=" || g.Op == "<") && isVar(r):
				if c, ok := closed(l); ok {
					if g.Op == "<" {
						c++
					}
					if c > get(r.Name).lo {
						get(r.Name).lo = c
					}
				}
			case (g.Op == "<=" || g.Op == "<") && isVar(l):
				if c, ok := closed(r); ok {
					if g.Op == "<=" {
						c++
					}
					if c < get(l.Name).hi {
						get(l.Name).hi = c
					}
				}
			}
		}
		collect(body.Args[0])
		for _, v := range e.Vars {
			if rs[v] == nil || rs[v].lo == -1<<62 || rs[v].hi == 1<<62 {
				panic("table fact: variable " + v + " is not bounded by constants in the guard")
			}
			if rs[v].hi-rs[v].lo > 200000 {
				panic("table fact: range of " + v + " too large")
			}
		}
		var rec func(i int, env2 factEnv) (bool, string)
		rec = func(i int, env2 factEnv) (bool, string) {
			if i == len(e.Vars) {
				return dv.evalB(body, env2)
			}
			v := e.Vars[i]
			for n := rs[v].lo; n < rs[v].hi; n++ {
				env2[v] = n
				if ok, w := rec(i+1, env2); !ok {
					return false, fmt.Sprintf("%s=%d: %s", v, n, w)
				}
			}
			delete(env2, v)
			return true, ""
		}
		env2 := factEnv{}
		for k, v := range env {
			env2[k] = v
		}
		return rec(0, env2)
	}
	panic("table fact: unsupported expression " + e.String())
}

// debugDrv runs the driver engine and prints what it finds (development aid).
func debugDrv(args []string) int {
	w, err := loadWorld("./...")
	if err != nil {
		fmt.Fprintln(os.Stderr, err)
		return 2
	}
	w.registerKeySorts()
	name := "php7"
	if len(args) > 0 {
		name = args[0]
	}
	se, err := newDrvEngine(w, name, []string{"dbg"})
	if err != nil {
		fmt.Fprintln(os.Stderr, err)
		return 2
	}
	dv := se.drv
	for _, f := range dv.facts {
		fmt.Printf("table %-24s %v %s\n", f.name, f.ok, f.why)
	}
	if ok, d := dv.lrDepthLemma(); true {
		fmt.Println("table lr-depth", ok, d)
		ok2, d2 := dv.acceptLemma()
		fmt.Println("table accept-via-rule-1", ok2, d2)
		if gp, err := loadGramParser(w, name); err == nil {
			ok3, d3 := dv.symbolsOnStackLemma(gp)
			fmt.Println("table symbols-on-stack", ok3, d3)
		} else {
			fmt.Println("table symbols-on-stack: cannot load grammar:", err)
		}
	}
	if os.Getenv("VC_DRV_TABLES") != "" {
		return 0
	}
	fmt.Printf("cuts=%d locals=%d structs=%d action write keys=%d frame errors=%v const globals=%v\n", len(se.order), len(se.locals), len(se.structRef), len(dv.actionKeys), dv.frameErr, dv.constG)
	if err := se.instantiate(); err != nil {
		fmt.Fprintln(os.Stderr, err)
		return 2
	}
	if only := os.Getenv("VC_DRV_ONLY"); only != "" {
		for _, c := range se.order {
			if c.name != only {
				continue
			}
			for _, d := range strings.Split(os.Getenv("VC_DRV_DEAD"), ";") {
				for _, cd := range c.cands {
					if d != "" && strings.Contains(cd.src, d) {
						cd.alive = false
					}
				}
			}
			r := se.execRegion(c)
			if r.err != "" {
				fmt.Println("ERROR", r.err)
				return 1
			}
			all := map[int]bool{}
			for i := range r.x.Sc.Obls {
				all[i] = true
			}
			sem := make(chan struct{}, 16)
			st := se.solveRegion(r, all, 4000, sem, nil)
			for i, o := range r.x.Sc.Obls {
				if st[i] != "unsat" {
					fmt.Printf("  %-8s %s\n", st[i], o.Name)
					if d := os.Getenv("VC_DRV_DUMP1"); d != "" && strings.Contains(o.Name, d) && st[i] == "unknown" {
						os.WriteFile("/tmp/one.smt2", []byte(r.renderOne("z3-new", 10000, i)), 0o644)
					}
				}
			}
		}
		return 0
	}
	se.buildRegions(16)
	for _, c := range se.order {
		fmt.Printf("cut %-14s b%d cands=%d paths=%d obls=%d err=%q\n", c.name, c.block.Index, len(c.cands), c.region.nPaths, len(c.region.x.Sc.Obls), c.region.err)
	}
	stats := se.houdini(16, 4000, true)
	_ = stats
	edge, obls := se.finalRound(16, 6000)
	bad := 0
	for _, o := range obls {
		if o.Status != "unsat" {
			bad++
			fmt.Printf("  FAIL [%s] %s\n", o.Status, o.Name)
		}
	}
	fmt.Printf("final: edge checks=%d obligations=%d failed=%d\n", edge, len(obls), bad)
	for _, c := range se.order {
		var alive []string
		for _, cd := range c.cands {
			if cd.alive {
				alive = append(alive, cd.src)
			}
		}
		fmt.Printf("inv %s: %d alive\n", c.name, len(alive))
		if len(args) > 1 {
			for _, a := range alive {
				fmt.Println("    ", a)
			}
		}
	}
	return 0
}
