package main

// SMT script construction and solver invocation.
// A Script is a sequence of base entries (declarations, definitional and
// assumption assertions) interleaved with obligations. Each obligation is
// checked under exactly the base entries that precede it.

import (
	"bytes"
	"fmt"
	"os"
	"os/exec"
	"path/filepath"
	"strings"
	"sync"
	"time"
)

type Obligation struct {
	Name     string   // full obligation name
	Class    string   // idx, nil, post, ...
	Props    []string // properties it serves
	Goal     *Term    // formula that must be valid under the prefix (with guard folded in)
	pos      int      // number of base entries preceding it
	Inputs   []*Term  // constants worth reporting in a model
	Site     string   // source position
	Status   string   // "unsat" (discharged), "sat", "unknown", "timeout", "error"
	Solver   string
	TimeS    float64
	Model    map[string]string
	Output   string // raw solver output for failed ones
	ExpectFail bool // vacuity probe: must NOT be provable
	Note     string
}

type Script struct {
	Name   string
	decls  map[string]string
	base   []string // SMT commands
	Obls   []*Obligation
	nfresh int
	memo   map[string]*Term // when set, Define returns the same constant for syntactically equal terms
	// scoped scripts (E-SCAN): assertions made inside PushScope/PopScope are visible only to the
	// obligations of that scope; declarations and AssertTop facts are hoisted to the top level
	scoped  bool
	dropQuant bool // render without quantified assertions (weaker context, decidable fragment)
	top     []string
	memoLog []string
	marks   []int
}

// AssertTop asserts an unconditional fact at the top level (visible in every scope).
func (s *Script) AssertTop(t *Term) {
	if !s.scoped {
		s.Assert(t)
		return
	}
	if t.isTrue() {
		return
	}
	s.ensureDeclared(t)
	s.top = append(s.top, "(assert "+t.String()+")")
}

func (s *Script) PushScope() {
	s.base = append(s.base, "(push 1)")
	s.marks = append(s.marks, len(s.memoLog))
}

func (s *Script) PopScope() {
	s.base = append(s.base, "(pop 1)")
	m := s.marks[len(s.marks)-1]
	s.marks = s.marks[:len(s.marks)-1]
	for _, k := range s.memoLog[m:] {
		delete(s.memo, k)
	}
	s.memoLog = s.memoLog[:m]
}

func NewScript(name string) *Script {
	return &Script{Name: name, decls: map[string]string{}}
}

func (s *Script) Fresh(prefix, sort string) *Term {
	s.nfresh++
	name := fmt.Sprintf("%s!%d", sanitize(prefix), s.nfresh)
	return s.Declare(name, sort)
}

func sanitize(x string) string {
	var b strings.Builder
	for _, r := range x {
		switch {
		case r >= 'a' && r <= 'z', r >= 'A' && r <= 'Z', r >= '0' && r <= '9', r == '_', r == '.', r == '!', r == '$':
			b.WriteRune(r)
		default:
			b.WriteRune('_')
		}
	}
	return b.String()
}

func (s *Script) Declare(name, sort string) *Term {
	if old, ok := s.decls[name]; ok {
		if old != sort {
			panic("redeclare " + name + " " + old + " vs " + sort)
		}
		return mkConst(name, sort)
	}
	s.decls[name] = sort
	s.base = append(s.base, fmt.Sprintf("(declare-fun %s () %s)", name, sort))
	return mkConst(name, sort)
}

// DeclareFun declares an uninterpreted function.
func (s *Script) DeclareFun(name string, argSorts []string, ret string) {
	sig := "(" + strings.Join(argSorts, " ") + ") " + ret
	if old, ok := s.decls[name]; ok {
		if old != sig {
			panic("redeclare fun " + name)
		}
		return
	}
	s.decls[name] = sig
	s.base = append(s.base, fmt.Sprintf("(declare-fun %s %s)", name, sig))
}

func (s *Script) Assert(t *Term) {
	if t.isTrue() {
		return
	}
	s.ensureDeclared(t)
	s.base = append(s.base, "(assert "+t.String()+")")
}

func (s *Script) Comment(c string) {
	s.base = append(s.base, "; "+strings.ReplaceAll(c, "\n", " "))
}

func (s *Script) ensureDeclared(t *Term) {
	cs := map[string]string{}
	collectConsts(t, map[*Term]bool{}, cs)
	for _, k := range sortedKeys(cs) {
		if _, ok := s.decls[k]; !ok {
			s.Declare(k, cs[k])
		}
	}
}

// Define introduces a fresh constant equal to t (keeps formulas linear in size).
func (s *Script) Define(prefix string, t *Term) *Term {
	if t.op == "const" || t.op == "int" || t.op == "bool" {
		return t
	}
	if s.memo != nil {
		if c, ok := s.memo[t.String()]; ok {
			return c
		}
		c := s.Fresh(prefix, t.sort)
		s.Assert(mkApp("=", SBool, c, t))
		s.memo[t.String()] = c
		s.memoLog = append(s.memoLog, t.String())
		return c
	}
	c := s.Fresh(prefix, t.sort)
	s.Assert(mkApp("=", SBool, c, t))
	return c
}

func (s *Script) AddObligation(o *Obligation) {
	s.ensureDeclared(o.Goal)
	o.pos = len(s.base)
	s.Obls = append(s.Obls, o)
}

// ---------------------------------------------------------------------------

type SolverSpec struct {
	Name string
	Cmd  []string
}

var solvers = []SolverSpec{
	{"z3-new", []string{"z3-new", "-in", "-smt2"}},
	{"z3", []string{"z3", "-in", "-smt2"}},
	{"cvc5", []string{"cvc5", "--lang=smt2", "--incremental", "--produce-models"}},
}

func solverByName(n string) SolverSpec {
	for _, s := range solvers {
		if s.Name == n {
			return s
		}
	}
	panic("no solver " + n)
}

var smtDumpDir = os.Getenv("VC_DUMP_SMT")

func header(solver string, timeoutMs int) string {
	var b strings.Builder
	if solver == "cvc5" {
		b.WriteString("(set-option :produce-models true)\n")
		fmt.Fprintf(&b, "(set-option :tlimit-per %d)\n", timeoutMs)
		b.WriteString("(set-logic ALL)\n")
	} else {
		fmt.Fprintf(&b, "(set-option :timeout %d)\n", timeoutMs)
		b.WriteString("(set-option :smt.mbqi false)\n")
		b.WriteString("(set-option :model.compact false)\n")
	}
	return b.String()
}

// renderBatch renders the whole script with all obligations as push/pop blocks.
func (s *Script) renderBatch(solver string, timeoutMs int, only map[int]bool) string {
	var b strings.Builder
	b.WriteString(header(solver, timeoutMs))
	if s.scoped {
		for _, line := range s.base {
			if strings.HasPrefix(line, "(declare-fun") {
				b.WriteString(line)
				b.WriteString("\n")
			}
		}
		for _, line := range s.top {
			if s.dropQuant && (strings.Contains(line, "(forall ") || strings.Contains(line, "(exists ")) {
				continue
			}
			b.WriteString(line)
			b.WriteString("\n")
		}
	}
	oi := 0
	emitObl := func(i int) {
		if only != nil && !only[i] {
			return
		}
		o := s.Obls[i]
		fmt.Fprintf(&b, "(push 1)\n(assert (not %s))\n(echo \"OB %d\")\n(check-sat)\n(pop 1)\n", o.Goal.String(), i)
	}
	for k, line := range s.base {
		for oi < len(s.Obls) && s.Obls[oi].pos == k {
			emitObl(oi)
			oi++
		}
		if s.scoped && strings.HasPrefix(line, "(declare-fun") {
			continue
		}
		if s.dropQuant && (strings.Contains(line, "(forall ") || strings.Contains(line, "(exists ")) {
			continue
		}
		b.WriteString(line)
		b.WriteString("\n")
	}
	for oi < len(s.Obls) {
		emitObl(oi)
		oi++
	}
	return b.String()
}

// prefixLines returns the script lines in force at position pos: for a scoped script the
// declarations and top-level facts first, then the lines of the scopes still open at pos.
func (s *Script) prefixLines(pos int) []string {
	if !s.scoped {
		return s.base[:pos]
	}
	var out []string
	for _, line := range s.base {
		if strings.HasPrefix(line, "(declare-fun") {
			out = append(out, line)
		}
	}
	out = append(out, s.top...)
	var live []string
	var marks []int
	for _, line := range s.base[:pos] {
		switch {
		case line == "(push 1)":
			marks = append(marks, len(live))
		case line == "(pop 1)":
			live = live[:marks[len(marks)-1]]
			marks = marks[:len(marks)-1]
		case strings.HasPrefix(line, "(declare-fun"):
		default:
			live = append(live, line)
		}
	}
	return append(out, live...)
}

// renderSingle renders obligation i alone with model extraction.
func (s *Script) renderSingle(solver string, timeoutMs int, i int) string {
	var b strings.Builder
	if solver != "cvc5" {
		b.WriteString("(set-option :produce-models true)\n")
	}
	b.WriteString(header(solver, timeoutMs))
	o := s.Obls[i]
	for _, line := range s.prefixLines(o.pos) {
		b.WriteString(line)
		b.WriteString("\n")
	}
	fmt.Fprintf(&b, "(assert (not %s))\n(echo \"OB %d\")\n(check-sat)\n", o.Goal.String(), i)
	if len(o.Inputs) > 0 {
		b.WriteString("(get-value (")
		for _, in := range o.Inputs {
			b.WriteString(in.String())
			b.WriteString(" ")
		}
		b.WriteString("))\n")
	}
	return b.String()
}

func runSolver(spec SolverSpec, script string, wall time.Duration) (string, error) {
	cmd := exec.Command(spec.Cmd[0], spec.Cmd[1:]...)
	cmd.Stdin = strings.NewReader(script)
	var out bytes.Buffer
	cmd.Stdout = &out
	cmd.Stderr = &out
	if err := cmd.Start(); err != nil {
		return "", err
	}
	done := make(chan error, 1)
	go func() { done <- cmd.Wait() }()
	select {
	case <-done:
	case <-time.After(wall):
		cmd.Process.Kill()
		<-done
		return out.String(), fmt.Errorf("wall timeout")
	}
	return out.String(), nil
}

var dumpMu sync.Mutex
var dumpN int

func dumpScript(name, solver, text string) {
	if smtDumpDir == "" {
		return
	}
	dumpMu.Lock()
	dumpN++
	n := dumpN
	dumpMu.Unlock()
	os.MkdirAll(smtDumpDir, 0o755)
	os.WriteFile(filepath.Join(smtDumpDir, fmt.Sprintf("%04d_%s_%s.smt2", n, sanitize(name), solver)), []byte(text), 0o644)
}

// parseBatch assigns results to obligations from solver output.
func parseBatch(out string) map[int]string {
	res := map[int]string{}
	lines := strings.Split(out, "\n")
	cur := -1
	for _, l := range lines {
		l = strings.TrimSpace(l)
		l = strings.Trim(l, "\"")
		if strings.HasPrefix(l, "OB ") {
			fmt.Sscanf(l, "OB %d", &cur)
			continue
		}
		if cur >= 0 {
			switch {
			case l == "sat" || l == "unsat" || l == "unknown":
				res[cur] = l
				cur = -1
			case strings.HasPrefix(l, "(error"):
				res[cur] = "error: " + l
				cur = -1
			case l == "timeout":
				res[cur] = "unknown"
				cur = -1
			}
		} else if strings.HasPrefix(l, "(error") {
			res[-1] = l
		}
	}
	return res
}

type SolveOpts struct {
	TimeoutMs  int
	Primary    string
	Fallbacks  []string
	CrossCheck bool // thorough: re-check discharged obligations on a second solver
}

// Solve discharges all obligations of the script. Status of each obligation is set.
func (s *Script) Solve(opt SolveOpts) (solverTime float64) {
	if len(s.Obls) == 0 {
		return 0
	}
	t0 := time.Now()
	text := s.renderBatch(opt.Primary, opt.TimeoutMs, nil)
	dumpScript(s.Name, opt.Primary, text)
	wall := time.Duration(len(s.Obls)*opt.TimeoutMs+60000) * time.Millisecond
	out, err := runSolver(solverByName(opt.Primary), text, wall)
	res := parseBatch(out)
	if e, ok := res[-1]; ok {
		// a base-level error poisons everything: mark all as error
		for _, o := range s.Obls {
			o.Status = "error"
			o.Output = e
			o.Solver = opt.Primary
		}
		_ = err
		return time.Since(t0).Seconds()
	}
	for i, o := range s.Obls {
		r, ok := res[i]
		if !ok {
			r = "unknown"
		}
		o.Status = r
		o.Solver = opt.Primary
	}
	batchT := time.Since(t0).Seconds()
	for _, o := range s.Obls {
		o.TimeS = batchT / float64(len(s.Obls))
	}
	// second pass for non-unsat: get a model with the primary; on unknown try the fallbacks.
	// Failed obligations are independent processes, so they run in parallel.
	var wg sync.WaitGroup
	sem := make(chan struct{}, 8)
	for i, o := range s.Obls {
		if o.Status == "unsat" || o.ExpectFail {
			continue
		}
		wg.Add(1)
		go func(i int, o *Obligation) {
			defer wg.Done()
			sem <- struct{}{}
			defer func() { <-sem }()
			order := append([]string{opt.Primary}, opt.Fallbacks...)
			for _, sv := range order {
				t1 := time.Now()
				st := s.renderSingle(sv, opt.TimeoutMs, i)
				dumpScript(s.Name+"_ob"+fmt.Sprint(i), sv, st)
				out, _ := runSolver(solverByName(sv), st, time.Duration(opt.TimeoutMs+20000)*time.Millisecond)
				r := parseBatch(out)[i]
				if r == "" {
					r = "unknown"
				}
				o.TimeS = time.Since(t1).Seconds()
				if r == "unsat" {
					o.Status, o.Solver, o.Output = "unsat", sv, ""
					break
				}
				if r == "sat" {
					o.Status, o.Solver, o.Output = "sat", sv, out
					o.Model = parseModel(out)
					break
				}
				if o.Output == "" {
					o.Status, o.Solver, o.Output = r, sv, out
				}
			}
		}(i, o)
	}
	wg.Wait()
	if opt.CrossCheck {
		other := "z3"
		if opt.Primary == "z3" {
			other = "z3-new"
		}
		only := map[int]bool{}
		for i, o := range s.Obls {
			if o.Status == "unsat" {
				only[i] = true
			}
		}
		text := s.renderBatch(other, opt.TimeoutMs, only)
		out, _ := runSolver(solverByName(other), text, wall)
		res := parseBatch(out)
		for i := range only {
			if res[i] == "sat" {
				s.Obls[i].Note += " SOLVER-DISAGREEMENT(" + other + "=sat)"
				s.Obls[i].Status = "error"
			} else if res[i] == "unsat" {
				s.Obls[i].Note += " cross-checked:" + other
			}
		}
	}
	return time.Since(t0).Seconds()
}

// parseModel extracts ((name value) ...) pairs from get-value output.
func parseModel(out string) map[string]string {
	m := map[string]string{}
	idx := strings.Index(out, "((")
	if idx < 0 {
		return m
	}
	toks := tokenizeSexp(out[idx:])
	// structure: ( (name val) (name val) ... )
	pos := 0
	var parse func() interface{}
	parse = func() interface{} {
		if pos >= len(toks) {
			return nil
		}
		t := toks[pos]
		pos++
		if t == "(" {
			var l []interface{}
			for pos < len(toks) && toks[pos] != ")" {
				l = append(l, parse())
			}
			pos++
			return l
		}
		return t
	}
	top, _ := parse().([]interface{})
	for _, e := range top {
		pair, ok := e.([]interface{})
		if !ok || len(pair) != 2 {
			continue
		}
		m[sexpString(pair[0])] = sexpString(pair[1])
	}
	return m
}

func sexpString(x interface{}) string {
	switch v := x.(type) {
	case string:
		return v
	case []interface{}:
		parts := make([]string, len(v))
		for i, e := range v {
			parts[i] = sexpString(e)
		}
		// normalise (- 5) to -5
		if len(parts) == 2 && parts[0] == "-" {
			return "-" + parts[1]
		}
		return "(" + strings.Join(parts, " ") + ")"
	}
	return ""
}

func tokenizeSexp(s string) []string {
	var toks []string
	i := 0
	for i < len(s) {
		c := s[i]
		switch {
		case c == '(' || c == ')':
			toks = append(toks, string(c))
			i++
		case c == ' ' || c == '\n' || c == '\t' || c == '\r':
			i++
		case c == '|':
			j := i + 1
			for j < len(s) && s[j] != '|' {
				j++
			}
			toks = append(toks, s[i:j+1])
			i = j + 1
		default:
			j := i
			for j < len(s) && !strings.ContainsRune("() \n\t\r", rune(s[j])) {
				j++
			}
			toks = append(toks, s[i:j])
			i = j
		}
	}
	return toks
}
