package main

// E-SCAN: Floyd-style proof over the generated scanner machine (*Lexer).Lex.
//
// Lex is one goto-structured function (~8000 SSA blocks). It is cut at a set of blocks such that
// every cycle contains a cut; between cuts the control flow is loop-free, and every cut-to-cut
// path is executed symbolically (path enumeration, no merging) with the same symbolic core that
// E-VC uses for ordinary functions: callee contracts are applied at calls, index/slice/nil checks
// and callee preconditions become safety obligations.
//
// The invariant at every cut is a conjunction of candidates instantiated from a template kept in
// the contract file of internal/scanner ("//@ scan inv ..."). Candidates that cannot be proved
// on some incoming edge are dropped (Houdini) until the remaining conjunction is inductive; the
// property obligations (safety inside Lex, Lex's postconditions) are then discharged from it.
// Inference is only a search: what is reported is the final round, in which every surviving
// candidate is proved on every incoming edge and every obligation is proved from them.
//
// The function is built in go/ssa's NaiveForm (locals stay memory cells, so there are no phi
// nodes and a cut's state is the heap alone).

import (
	"fmt"
	"regexp"
	"go/constant"
	"go/token"
	"go/types"
	"os"
	"sort"
	"strings"
	"sync"
	"time"

	"golang.org/x/tools/go/packages"
	"golang.org/x/tools/go/ssa"
	"golang.org/x/tools/go/ssa/ssautil"
)

type scanCand struct {
	id    int
	src   string
	expr  *CExpr
	alive bool
	glob  bool // from a template instantiated at every cut
}

type scanEdgeObl struct {
	target *scanCut
	cand   *scanCand
	obl    int // index into region script obligations
}

type scanCut struct {
	block   *ssa.BasicBlock // nil for the virtual inter-call cut
	name    string
	cands   []*scanCand
	region  *scanRegion
	preds   map[*scanCut]bool
	dirty   bool
}

type scanRegion struct {
	cut      *scanCut
	x        *Exec
	enable   map[*scanCand]*Term
	edges    []scanEdgeObl
	safety   []int // obligation indices of safety / property obligations
	nBlocks  int
	nPaths   int
	err      string
	targets  map[*scanCut]bool
	usesStack bool // the region reads the call stack (fret / ret): machine-state candidates need the quantified stack invariant
}

type scanEngine struct {
	w        *World
	fn       *ssa.Function
	cuts     map[*ssa.BasicBlock]*scanCut
	order    []*scanCut
	locals   map[string]*ssa.Alloc
	localPtr map[*ssa.Alloc]PtrV
	entry    map[int64]bool // scanner entry states (states whose st_case resets ts)
	props    []string
	con      *Contract
	tmplCut  []string
	tmplAt   []string
	post     []*CExpr // property postconditions of Lex (checked at every return)
	prePost  []*CExpr // postconditions checked at every return before the ghost updates of the contract are applied
	inline   map[string]bool
	totalSwitch []string // fields of Lexer whose switch statements are assumed total (listed assumption)
	assumedEdges map[string]bool
	mu       sync.Mutex
	stats    map[string]int
	lazy     int
	// E-DRV: the same Floyd/Houdini machinery over the LR driver
	drv        *driver
	prefix     string              // obligation name prefix
	structRef  map[*ssa.Alloc]*Term // struct-typed entry locals
	alwaysFull bool                // every obligation is checked with the full (quantified) context
	variants   map[string]*CExpr   // cut name -> variant expression of the loop through that cut (E-DRV)
}

func buildNaiveLex(w *World) (*ssa.Function, error) {
	p := w.PkgByPath[modPath+"/internal/scanner"]
	if p == nil {
		return nil, fmt.Errorf("package internal/scanner not loaded")
	}
	prog, pkgs := ssautil.Packages([]*packages.Package{p}, ssa.NaiveForm)
	if len(pkgs) == 0 || pkgs[0] == nil {
		return nil, fmt.Errorf("cannot build SSA of internal/scanner")
	}
	pkgs[0].Build()
	obj := p.Types.Scope().Lookup("Lexer")
	if obj == nil {
		return nil, fmt.Errorf("no type Lexer")
	}
	ms := prog.MethodSets.MethodSet(types.NewPointer(obj.Type()))
	for i := 0; i < ms.Len(); i++ {
		if ms.At(i).Obj().Name() == "Lex" {
			return prog.MethodValue(ms.At(i)), nil
		}
	}
	return nil, fmt.Errorf("no method Lex")
}

// mapCallee maps a function of the naive-form program to the same function of the main program
// (which has bodies for all packages, needed for write-set computation and inlining).
func (w *World) mapCallee(fn *ssa.Function) *ssa.Function {
	if fn == nil {
		return nil
	}
	if g := w.lookupFunc(funcPkgPath(fn), funcKey(fn)); g != nil {
		return g
	}
	return fn
}

func newScanEngine(w *World, props []string) (*scanEngine, error) {
	fn, err := buildNaiveLex(w)
	if err != nil {
		return nil, err
	}
	se := &scanEngine{w: w, fn: fn, cuts: map[*ssa.BasicBlock]*scanCut{}, locals: map[string]*ssa.Alloc{}, localPtr: map[*ssa.Alloc]PtrV{},
		entry: map[int64]bool{}, props: props, stats: map[string]int{}, inline: map[string]bool{}}
	se.con = w.contractFor(fn)
	cf := w.CFiles[modPath+"/internal/scanner"]
	if cf == nil {
		return nil, fmt.Errorf("no contract file for internal/scanner")
	}
	for _, d := range cf.Directives {
		f := strings.Fields(d)
		if len(f) < 3 || f[0] != "scan" {
			continue
		}
		rest := strings.TrimSpace(d[strings.Index(d, f[1])+len(f[1]):])
		switch f[1] {
		case "inv":
			se.tmplCut = append(se.tmplCut, rest)
		case "inv-at":
			se.tmplAt = append(se.tmplAt, rest)
		case "post":
			e, err := parseCExpr(rest)
			if err != nil {
				return nil, fmt.Errorf("scan post %q: %v", rest, err)
			}
			se.post = append(se.post, e)
		case "post-before-ghost":
			e, err := parseCExpr(rest)
			if err != nil {
				return nil, fmt.Errorf("scan post-before-ghost %q: %v", rest, err)
			}
			se.prePost = append(se.prePost, e)
		case "inline-join":
			se.inline[rest] = true
		case "assume-total-switch":
			se.totalSwitch = append(se.totalSwitch, rest)
		}
	}
	// cuts
	raw := scanCuts(fn, 12)
	for b := range raw {
		if se.inline[b.Comment] {
			delete(raw, b)
		}
	}
	// a block that was not chosen must not be on a cycle without a cut: check
	if err := checkAcyclicBetweenCuts(fn, raw); err != nil {
		return nil, err
	}
	var bs []*ssa.BasicBlock
	for b := range raw {
		bs = append(bs, b)
	}
	sort.Slice(bs, func(i, j int) bool { return bs[i].Index < bs[j].Index })
	names := map[string]int{}
	for _, b := range bs {
		n := b.Comment
		if n == "" {
			n = "b"
		}
		names[n]++
		if names[n] > 1 || !isLabelName(n) {
			n = fmt.Sprintf("%s@%d", n, names[n])
		}
		c := &scanCut{block: b, name: n, preds: map[*scanCut]bool{}}
		se.cuts[b] = c
		se.order = append(se.order, c)
	}
	// locals: allocs of the entry block
	k := int64(0)
	for _, in := range fn.Blocks[0].Instrs {
		a, ok := in.(*ssa.Alloc)
		if !ok {
			continue
		}
		k++
		t := a.Type().(*types.Pointer).Elem()
		if _, isS := isStruct(t); isS {
			return nil, fmt.Errorf("struct-typed local %s in Lex", a.Comment)
		}
		se.localPtr[a] = PtrV{Kind: "cell", Key: cellKey(t), Ref: mkInt(k), T: t}
		if a.Comment != "" {
			se.locals[a.Comment] = a
		}
	}
	se.prefix = "internal/scanner.(*Lexer).Lex"
	// allocs outside the entry block would need fresh cells per execution: only the entry block may have them
	for _, b := range fn.Blocks[1:] {
		for _, in := range b.Instrs {
			if a, ok := in.(*ssa.Alloc); ok {
				t := a.Type().(*types.Pointer).Elem()
				if _, isS := isStruct(t); isS {
					continue
				}
				if _, isA := t.Underlying().(*types.Array); isA {
					continue // e.g. the argument array of a variadic call: allocated afresh where it is executed
				}
				k++
				se.localPtr[a] = PtrV{Kind: "cell", Key: cellKey(t), Ref: mkInt(k), T: t}
			}
		}
	}
	for _, p := range se.localPtr {
		_ = p.Ref.String() // shared between the parallel region generators: fill the render cache now
	}
	_ = tTrue.String()
	_ = tFalse.String()
	se.findEntryStates()
	return se, nil
}

func isLabelName(s string) bool {
	return strings.HasPrefix(s, "st") || strings.HasPrefix(s, "tr") || strings.HasPrefix(s, "_")
}

func checkAcyclicBetweenCuts(fn *ssa.Function, cuts map[*ssa.BasicBlock]bool) error {
	state := map[*ssa.BasicBlock]int{}
	var visit func(b *ssa.BasicBlock) error
	visit = func(b *ssa.BasicBlock) error {
		state[b] = 1
		for _, s := range b.Succs {
			if cuts[s] {
				continue
			}
			switch state[s] {
			case 1:
				return fmt.Errorf("cycle without a cut through block %d (%s)", s.Index, s.Comment)
			case 0:
				if err := visit(s); err != nil {
					return err
				}
			}
		}
		state[b] = 2
		return nil
	}
	for b := range cuts {
		for k := range state {
			delete(state, k)
		}
		if err := visit(b); err != nil {
			return err
		}
	}
	return nil
}

// scanRestStates: the machine states that have no end-of-input action, i.e. the states N of Lex
// (labels st_case_N, and the error state 0) for which the switch at _test_eof has no case.
func (w *World) scanRestStates() []int64 {
	if w.restStates != nil {
		return w.restStates
	}
	fn := w.lookupFunc(modPath+"/internal/scanner", "(*Lexer).Lex")
	if fn == nil {
		return nil
	}
	all := map[int64]bool{0: true}
	var eofBlock *ssa.BasicBlock
	for _, b := range fn.Blocks {
		if strings.HasPrefix(b.Comment, "st_case_") {
			var n int64
			if _, err := fmt.Sscanf(b.Comment, "st_case_%d", &n); err == nil {
				all[n] = true
			}
		}
		if b.Comment == "_test_eof" {
			eofBlock = b
		}
	}
	if eofBlock == nil {
		return nil
	}
	// walk the comparison chain below _test_eof: every `cs == k` test names a state with an eof action
	seen := map[*ssa.BasicBlock]bool{}
	var tag ssa.Value // the loaded lex.cs the switch dispatches on (first comparison met)
	var walk func(b *ssa.BasicBlock)
	walk = func(b *ssa.BasicBlock) {
		if seen[b] || (isLabelName(b.Comment) && b != eofBlock) {
			return
		}
		seen[b] = true
		for _, in := range b.Instrs {
			if bo, ok := in.(*ssa.BinOp); ok && bo.Op == token.EQL {
				if c, ok := bo.Y.(*ssa.Const); ok && c.Value != nil {
					if v, exact := constant.Int64Val(constant.ToInt(c.Value)); exact {
						if _, isLoad := bo.X.(*ssa.UnOp); isLoad {
							if tag == nil {
								tag = bo.X
							}
							if bo.X == tag {
								delete(all, v)
							}
						}
					}
				}
			}
		}
		for _, s := range b.Succs {
			walk(s)
		}
	}
	walk(eofBlock)
	for n := range all {
		w.restStates = append(w.restStates, n)
	}
	sort.Slice(w.restStates, func(i, j int) bool { return w.restStates[i] < w.restStates[j] })
	return w.restStates
}

func (se *scanEngine) findEntryStates() {
	for _, n := range se.w.scanEntryStates() {
		se.entry[n] = true
	}
	se.w.scanRestStates() // computed before the regions are generated in parallel
}

// scanEntryStates: state N is a scanner entry state iff the block labelled st_case_N of Lex starts
// by storing lex.p into lex.ts (ragel's from-state action of a scanner's start state).
func (w *World) scanEntryStates() []int64 {
	if w.entryStates != nil {
		return w.entryStates
	}
	fn := w.lookupFunc(modPath+"/internal/scanner", "(*Lexer).Lex")
	if fn == nil {
		return nil
	}
	set := map[int64]bool{}
	for _, b := range fn.Blocks {
		if !strings.HasPrefix(b.Comment, "st_case_") {
			continue
		}
		var n int64
		if _, err := fmt.Sscanf(b.Comment, "st_case_%d", &n); err != nil {
			continue
		}
		for _, in := range b.Instrs {
			if st, ok := in.(*ssa.Store); ok {
				if fa, ok := st.Addr.(*ssa.FieldAddr); ok {
					s, _ := isStruct(fa.X.Type().Underlying().(*types.Pointer).Elem())
					if s != nil && s.Field(fa.Field).Name() == "ts" {
						set[n] = true
					}
				}
				break
			}
			if _, ok := in.(*ssa.If); ok {
				break
			}
		}
	}
	for n := range set {
		w.entryStates = append(w.entryStates, n)
	}
	sort.Slice(w.entryStates, func(i, j int) bool { return w.entryStates[i] < w.entryStates[j] })
	return w.entryStates
}

// ---------------------------------------------------------------------------
// candidates

func (se *scanEngine) instantiate() error {
	id := 0
	mk := func(c *scanCut, src string, glob bool) error {
		e, err := parseCExpr(src)
		if err != nil {
			return fmt.Errorf("scan candidate %q: %v", src, err)
		}
		id++
		c.cands = append(c.cands, &scanCand{id: id, src: src, expr: e, alive: true, glob: glob})
		return nil
	}
	expand := func(t string) []string {
		if !strings.Contains(t, "$E") {
			return []string{t}
		}
		var out []string
		for _, n := range se.w.scanEntryStates() {
			out = append(out, strings.ReplaceAll(t, "$E", fmt.Sprint(n)))
		}
		return out
	}
	byName := map[string]*scanCut{}
	for _, c := range se.order {
		byName[c.name] = c
	}
	for _, c := range se.order {
		for _, t := range se.tmplCut {
			for _, tt := range expand(t) {
				if err := mk(c, tt, true); err != nil {
					return err
				}
			}
		}
	}
	for _, at := range se.tmplAt {
		i := strings.Index(at, ":")
		if i < 0 {
			return fmt.Errorf("scan inv-at %q: expected `<cut>[,<cut>...] : <expr>`", at)
		}
		for _, n := range strings.Split(at[:i], ",") {
			c := byName[strings.TrimSpace(n)]
			if c == nil {
				return fmt.Errorf("scan inv-at: no cut named %q", strings.TrimSpace(n))
			}
			for _, tt := range expand(strings.TrimSpace(at[i+1:])) {
				if err := mk(c, tt, false); err != nil {
					return err
				}
			}
		}
	}
	return nil
}

// ---------------------------------------------------------------------------
// region execution

type scanWalker struct {
	v0  *Term // value of the cut's variant expression at the start of the region
	se  *scanEngine
	r   *scanRegion
	x   *Exec
	fc  *frameCtx
	max int
	lastLabel string // the last ragel label passed on the current path
	lastAppend *Term // ghost: argument of the last NewLines.Append call on the current path (nil: none)
	p0 *Term        // lex.p at the start of the region
	nlRegion bool   // the region starts at a state or a transition action (a byte is being consumed)
}

func (se *scanEngine) binds(x *Exec, st *State, entryLex Val) binds {
	b := binds{}
	for name, a := range se.locals {
		p := se.localPtr[a]
		b[name] = TV{x.loadQuiet(st, p), p.T}
	}
	if entryLex != nil {
		b[se.fn.Params[0].Name()] = TV{entryLex, se.fn.Params[0].Type()}
	}
	for a, r := range se.structRef {
		if a.Comment != "" {
			b[a.Comment] = TV{r, a.Type()}
		}
	}
	if se.drv != nil {
		for k, v := range se.drv.tableBinds() {
			b[k] = v
		}
	}
	return b
}

func (se *scanEngine) execRegion(c *scanCut) (r *scanRegion) {
	r = &scanRegion{cut: c, enable: map[*scanCand]*Term{}, targets: map[*scanCut]bool{}}
	x := newExec(se.w, se.fn, se.props)
	x.lite = true
	x.Sc.memo = map[string]*Term{}
	x.Sc.scoped = true
	x.Prefix = se.prefix
	x.Sc.Name = "Lex." + c.name
	if se.drv != nil {
		x.Sc.Name = se.drv.name + ".Parse." + c.name
		se.drv.setup(se, x)
	}
	x.mapFn = se.w.mapCallee
	r.x = x
	defer func() {
		if e := recover(); e != nil {
			if o, ok := e.(OutOfSubset); ok {
				r.err = o.Msg
				return
			}
			r.err = fmt.Sprintf("generator fault: %v", e)
		}
	}()
	alloc0 := x.allocInit()
	x.Sc.Assert(tGe(alloc0, mkInt(int64(len(se.localPtr)+2))))
	if se.drv != nil {
		x.Sc.Assert(tGe(alloc0, mkInt(se.drv.localTop+2)))
	}
	st := &State{Guard: tTrue, Heap: map[string]*Term{}, Alloc: alloc0}
	fc := &frameCtx{fn: se.fn, env: map[ssa.Value]Val{}, params: map[string]TV{}, outSt: map[*ssa.BasicBlock]*State{}, edgeC: map[[2]int]*Term{}, top: true, loops: map[*ssa.BasicBlock]*loopInfo{}}
	fc.entry = st
	x.lazyEnv = func(v ssa.Value) Val {
		if a, ok := v.(*ssa.Alloc); ok {
			if p, ok := se.localPtr[a]; ok {
				return p
			}
			if r, ok := se.structRef[a]; ok {
				return r
			}
		}
		se.mu.Lock()
		se.lazy++
		se.mu.Unlock()
		return x.freshVal(st, "livein_"+v.Name(), v.Type())
	}
	// package invariants and ground facts are available as in E-VC
	for _, pp := range sortedKeys(se.w.CFiles) {
		cf := se.w.CFiles[pp]
		ifc := &frameCtx{pkgPath: pp, params: map[string]TV{}, env: map[ssa.Value]Val{}, entry: st}
		for _, inv := range cf.Invariants {
			x.Sc.Assert(x.evalBool(ifc, st, inv, nil))
		}
		for _, g := range cf.Grounds {
			x.Sc.Assert(x.evalBool(ifc, st, g, nil))
			x.Assumed["ground-eval: "+g.String()] = true
		}
	}
	var entryLex Val
	isEntry := c.block == se.fn.Blocks[0]
	if isEntry {
		entryLex = x.freshVal(st, "p_lex", se.fn.Params[0].Type())
		fc.env[se.fn.Params[0]] = entryLex
		fc.params[se.fn.Params[0].Name()] = TV{entryLex, se.fn.Params[0].Type()}
		for _, p := range se.fn.Params[1:] {
			v := x.freshVal(st, "p_"+p.Name(), p.Type())
			fc.env[p] = v
			fc.params[p.Name()] = TV{v, p.Type()}
		}
	}
	// assume the cut's candidates under enable flags; at function entry, Lex's precondition
	b := se.binds(x, st, entryLex)
	if isEntry {
		for n, tv := range fc.params {
			b[n] = tv
		}
	}
	if isEntry && se.drv != nil {
		// ghost: the driver's own count of Error calls starts at zero
		h := x.heapGet(st, "G:ghost.errcalls", SArrII)
		x.heapSet(st, "G:ghost.errcalls", tStore(h, mkInt(0), mkInt(0)))
		b = se.binds(x, st, entryLex)
		for n, tv := range fc.params {
			b[n] = tv
		}
	}
	if isEntry && se.con != nil {
		for _, rq := range se.con.Requires {
			for _, cj := range conjuncts(x.evalBool(fc, st, rq, b)) {
				x.Sc.Assert(cj)
			}
		}
	}
	for _, cd := range c.cands {
		if isEntry {
			break // the entry block is executed once, with the precondition only
		}
		en := x.Sc.Declare(fmt.Sprintf("en_%d", cd.id), SBool)
		r.enable[cd] = en
		for _, cj := range conjuncts(x.evalBool(fc, st, cd.expr, b)) {
			x.Sc.Assert(tImp(en, cj))
		}
	}
	wk := &scanWalker{se: se, r: r, x: x, fc: fc}
	if ve := se.variants[c.name]; ve != nil && !isEntry {
		wk.v0 = x.Sc.Define("variant0", x.eval(fc, st, st, ve, b).V.(*Term))
	}
	if strings.HasPrefix(c.name, "st_case_") || (strings.HasPrefix(c.name, "tr") && !strings.Contains(c.name, "@")) {
		if lv, ok := b["lex"]; ok {
			if ref, isT := lv.V.(*Term); isT {
				wk.nlRegion = true
				wk.p0 = x.Sc.Define("p0", tSelect(x.heapGet(st, se.fieldKeyOf("p"), SArrII), ref))
			}
		}
	}
	if se.drv == nil {
	x.onCall = func(cst *State, callee *ssa.Function, args []Val) {
		if callee.Name() == "Append" && strings.HasSuffix(funcPkgPath(callee), "internal/scanner") && len(args) == 2 {
			if t, ok := args[1].(*Term); ok {
				wk.lastAppend = t
			}
		}
	}
	}
	wk.walk(c.block, st, 0)
	return r
}

func (wk *scanWalker) walk(b *ssa.BasicBlock, st *State, depth int) {
	x, fc, se := wk.x, wk.fc, wk.se
	if depth > 3000 {
		oos("path too long in region %s", wk.r.cut.name)
	}
	wk.r.nBlocks++
	nret := len(fc.rets)
	for _, in := range b.Instrs {
		switch i := in.(type) {
		case *ssa.IndexAddr:
			if sl, ok := i.X.Type().Underlying().(*types.Slice); ok && sl.Elem() == types.Typ[types.Int] {
				wk.r.usesStack = true
			}
		case *ssa.Call:
			if f := i.Common().StaticCallee(); f != nil && f.Name() == "ret" {
				wk.r.usesStack = true
			}
		}
	}
	x.skipAlloc = se.localPtr
	if isLabelName(b.Comment) && b.Comment != "_out" && b.Comment != "_test_eof" && b.Comment != "_again" {
		wk.lastLabel = b.Comment
	}
	x.curLabel = wk.lastLabel
	if x.curLabel == "" {
		x.curLabel = labelOf(b)
	}
	x.execBlock(fc, b, st)
	if st.Guard.isFalse() {
		return
	}
	if se.drv != nil && b == se.drv.dispatch {
		// the action switch: abstracted by its frame, control continues at the post-switch block
		se.drv.abstractActions(wk, st)
		s := se.drv.done
		x.Sc.PushScope()
		if tc := se.cuts[s]; tc != nil {
			wk.r.nPaths++
			wk.atCut(tc, st.clone(), fmt.Sprintf("%s->%s", labelOf(b), tc.name))
		} else {
			wk.walk(s, st.clone(), depth+1)
		}
		x.Sc.PopScope()
		return
	}
	if len(fc.rets) > nret {
		// return: edge to the virtual inter-call cut + Lex's postconditions
		ret := fc.rets[len(fc.rets)-1]
		fc.rets = fc.rets[:nret]
		wk.r.nPaths++
		x.Sc.PushScope()
		wk.atReturn(ret, b)
		x.Sc.PopScope()
		return
	}
	for si, s := range b.Succs {
		c := fc.edgeC[[2]int{b.Index, s.Index}]
		if c == nil {
			c = tTrue
		}
		g := tAnd(st.Guard, c)
		if g.isFalse() {
			continue
		}
		if si == 1 && se.isSwitchFallthrough(b) {
			se.mu.Lock()
			if se.assumedEdges == nil {
				se.assumedEdges = map[string]bool{}
			}
			se.assumedEdges[wk.lastLabel] = true
			se.mu.Unlock()
			continue
		}
		if wk.nlRegion && reStateLabel.MatchString(s.Comment) {
			wk.newlineObligation(st, g, s.Comment)
		}
		x.Sc.PushScope()
		savedLabel := wk.lastLabel
		savedAppend := wk.lastAppend
		if tc := se.cuts[s]; tc != nil {
			wk.r.nPaths++
			es := st.clone()
			es.Guard = g
			if tc.name == "_again" && wk.r.cut.name != "_again" {
				wk.progressObligation(es)
			}
			wk.atCut(tc, es, fmt.Sprintf("%s->%s", labelOf(b), tc.name))
		} else {
			ns := st.clone()
			ns.Guard = x.Sc.Define("g", g)
			wk.walk(s, ns, depth+1)
		}
		wk.lastLabel = savedLabel
		wk.lastAppend = savedAppend
		x.Sc.PopScope()
	}
}

// isSwitchFallthrough: b ends the comparison chain of a `switch lex.<f>` for a field f listed by
// `scan assume-total-switch`: b tests `tag == k`, and its else-successor does not test the same tag.
func (se *scanEngine) isSwitchFallthrough(b *ssa.BasicBlock) bool {
	if len(se.totalSwitch) == 0 {
		return false
	}
	tag := switchTag(b)
	if tag == nil || len(b.Succs) != 2 {
		return false
	}
	fa, ok := tag.X.(*ssa.FieldAddr)
	if !ok {
		return false
	}
	st, _ := isStruct(fa.X.Type().Underlying().(*types.Pointer).Elem())
	if st == nil {
		return false
	}
	name := st.Field(fa.Field).Name()
	listed := false
	for _, f := range se.totalSwitch {
		if f == name {
			listed = true
		}
	}
	if !listed {
		return false
	}
	if t2 := switchTag(b.Succs[1]); t2 == tag {
		return false
	}
	return true
}

// switchTag: if b ends in `if tag == const` where tag is a load, return the load.
func switchTag(b *ssa.BasicBlock) *ssa.UnOp {
	if len(b.Instrs) == 0 {
		return nil
	}
	iff, ok := b.Instrs[len(b.Instrs)-1].(*ssa.If)
	if !ok {
		return nil
	}
	bo, ok := iff.Cond.(*ssa.BinOp)
	if !ok || bo.Op != token.EQL {
		return nil
	}
	if _, isC := bo.Y.(*ssa.Const); !isC {
		return nil
	}
	ld, ok := bo.X.(*ssa.UnOp)
	if !ok || ld.Op != token.MUL {
		return nil
	}
	return ld
}

// progressObligation (C01, no hang): an action that loops back to _again has consumed at least one
// byte of the input since the token started (ts <= p; te == p+1 there, so the token is not empty).
func (wk *scanWalker) progressObligation(st *State) {
	x, se := wk.x, wk.se
	a, ok := se.locals["lex"]
	if !ok {
		return
	}
	lexRef, isT := x.loadQuiet(st, se.localPtr[a]).(*Term)
	if !isT {
		return
	}
	p := tSelect(x.heapGet(st, se.fieldKeyOf("p"), SArrII), lexRef)
	ts := tSelect(x.heapGet(st, se.fieldKeyOf("ts"), SArrII), lexRef)
	o := &Obligation{Name: x.Prefix + "/progress/" + x.site("progress", wk.lastLabel+"->_again:the action has consumed input (ts <= p)"), Class: "progress", Props: se.props, Goal: tImp(st.Guard, tLe(ts, p))}
	x.Sc.AddObligation(o)
}

var reStateLabel = regexp.MustCompile(`^st[1-9][0-9]*$`) // st0 is the error exit, not an advance

// fieldKeyOf: heap key of a scalar field of Lexer.
func (se *scanEngine) fieldKeyOf(name string) string {
	lt := se.fn.Params[0].Type().(*types.Pointer).Elem()
	st, _ := isStruct(lt)
	for i := 0; i < st.NumFields(); i++ {
		if st.Field(i).Name() == name {
			return fieldKey(lt, st, i)
		}
	}
	return ""
}

// newlineObligation (C04: "1-based start and end lines where LF, CRLF and a lone CR each end one
// line"): when the machine advances to the next state having consumed the byte it was looking at
// (p unchanged since the region began), and that byte ends a line - LF, or CR not followed by LF -
// then the line table was told so on this path (NewLines.Append(p+1) was called).
func (wk *scanWalker) newlineObligation(st *State, g *Term, target string) {
	x, se := wk.x, wk.se
	a, ok := se.locals["lex"]
	if !ok {
		return
	}
	lexRef, isT := x.loadQuiet(st, se.localPtr[a]).(*Term)
	if !isT {
		return
	}
	lt := se.fn.Params[0].Type().(*types.Pointer).Elem()
	stt, _ := isStruct(lt)
	fld := func(name string) Val {
		for i := 0; i < stt.NumFields(); i++ {
			if stt.Field(i).Name() == name {
				return x.loadQuiet(st, PtrV{Kind: "field", Key: fieldKey(lt, stt, i), Ref: lexRef, T: stt.Field(i).Type()})
			}
		}
		return nil
	}
	pNow, _ := fld("p").(*Term)
	pe, _ := fld("pe").(*Term)
	data, okd := fld("data").(SliceV)
	if pNow == nil || pe == nil || !okd {
		return
	}
	var dataElem types.Type = types.Typ[types.Uint8]
	for i := 0; i < stt.NumFields(); i++ {
		if stt.Field(i).Name() == "data" {
			dataElem = stt.Field(i).Type().Underlying().(*types.Slice).Elem()
		}
	}
	byteAt := func(i *Term) *Term {
		h := x.heapGet(st, elemKey(dataElem), SArr2I)
		return tSelect(tSelect(h, data.Arr), tAdd(data.Off, i))
	}
	appended := tFalse
	if wk.lastAppend != nil {
		appended = tEq(wk.lastAppend, tAdd(wk.p0, mkInt(1)))
	}
	endsLine := tOr(tEq(byteAt(wk.p0), mkInt(10)),
		tAnd(tEq(byteAt(wk.p0), mkInt(13)), tOr(tEq(tAdd(wk.p0, mkInt(1)), pe), tNe(byteAt(tAdd(wk.p0, mkInt(1))), mkInt(10)))))
	goal := tImp(g, tImp(tAnd(tEq(pNow, wk.p0), tLe(mkInt(0), wk.p0), tLt(wk.p0, pe), endsLine), appended))
	o := &Obligation{Name: x.Prefix + "/newline/" + x.site("newline", fmt.Sprintf("%s->%s:a consumed line end is recorded in the line table", wk.lastLabel, target)), Class: "newline", Props: se.props, Goal: goal}
	x.Sc.AddObligation(o)
}

func labelOf(b *ssa.BasicBlock) string {
	// nearest labelled dominator
	for d := b; d != nil; d = d.Idom() {
		if isLabelName(d.Comment) {
			return d.Comment
		}
	}
	return fmt.Sprintf("b%d", b.Index)
}

func (wk *scanWalker) atCut(tc *scanCut, st *State, edge string) {
	x, fc, se := wk.x, wk.fc, wk.se
	wk.r.targets[tc] = true
	b := se.binds(x, st, nil)
	if tc == wk.r.cut && wk.v0 != nil {
		// termination of the loop through this cut: the variant is non-negative and strictly decreases
		savedP := fc.params
		fc.params = map[string]TV{}
		v1 := x.eval(fc, st, st, se.variants[tc.name], b).V.(*Term)
		fc.params = savedP
		o := &Obligation{Name: fmt.Sprintf("%s/dec/%s:%s@%s", x.Prefix, tc.name, se.variants[tc.name].String(), edge), Class: "dec", Props: se.props,
			Goal: tImp(st.Guard, tAnd(tLe(mkInt(0), wk.v0), tLt(v1, wk.v0)))}
		x.Sc.AddObligation(o)
	}
	// a parameter named in a candidate is the local variable (a cell in naive form)
	saved := fc.params
	fc.params = map[string]TV{}
	for _, cd := range tc.cands {
		t := x.evalBool(fc, st, cd.expr, b)
		o := &Obligation{Name: fmt.Sprintf("%s/inv/%s:%s@%s", x.Prefix, tc.name, cd.src, edge), Class: "inv", Props: se.props, Goal: tImp(st.Guard, t)}
		if !cd.glob || strings.Contains(cd.src, "lex.cs") || strings.Contains(cd.src, "lex.top") {
			o.Note = "full" // candidates about the machine state need the quantified stack invariant
		}
		x.Sc.AddObligation(o)
		wk.r.edges = append(wk.r.edges, scanEdgeObl{target: tc, cand: cd, obl: len(x.Sc.Obls) - 1})
	}
	fc.params = saved
}

func (wk *scanWalker) atReturn(ret retInfo, from *ssa.BasicBlock) {
	x, fc, se := wk.x, wk.fc, wk.se
	st := ret.st
	b := se.binds(x, st, nil)
	saved := fc.params
	fc.params = map[string]TV{}
	fc.result = ret.val
	b["result"] = TV{ret.val, se.fn.Signature.Results().At(0).Type()}
	for k, e := range se.prePost {
		t := x.evalBool(fc, st, e, b)
		x.oblige(st, fmt.Sprintf("tile:%d", k), wk.lastLabel+":"+e.String(), se.fn.Pos(), t, nil)
	}
	if se.con != nil {
		for _, g := range se.con.GhostRet {
			x.applyGhostB(fc, st, st, g, b)
		}
	}
	var posts []*CExpr
	if se.con != nil {
		posts = append(posts, se.con.Ensures...)
	}
	posts = append(posts, se.post...)
	for k, e := range posts {
		t := x.evalBool(fc, st, e, b)
		x.oblige(st, fmt.Sprintf("post:%d", k), wk.lastLabel+":"+e.String(), se.fn.Pos(), t, nil)
	}
	fc.params = saved
}

// ---------------------------------------------------------------------------
// solving

func (se *scanEngine) buildRegions(par int) {
	var wg sync.WaitGroup
	sem := make(chan struct{}, par)
	for _, c := range se.order {
		wg.Add(1)
		go func(c *scanCut) {
			defer wg.Done()
			sem <- struct{}{}
			defer func() { <-sem }()
			c.region = se.execRegion(c)
		}(c)
	}
	wg.Wait()
	for _, c := range se.order {
		for t := range c.region.targets {
			src := c
			t.preds[src] = true
		}
		// classify obligations
		edgeObl := map[int]bool{}
		for _, e := range c.region.edges {
			edgeObl[e.obl] = true
		}
		for i := range c.region.x.Sc.Obls {
			if !edgeObl[i] {
				c.region.safety = append(c.region.safety, i)
			}
		}
	}
}

// renderRound renders the region script with the alive candidates of the source cut enabled and
// only the selected obligations.
func (r *scanRegion) render(solver string, timeoutMs int, only map[int]bool, qf bool) string {
	var pre strings.Builder
	r.x.Sc.dropQuant = qf
	body := r.x.Sc.renderBatch(solver, timeoutMs, only)
	r.x.Sc.dropQuant = false
	// enable flags: asserted right after their declaration would be cleanest; they are plain
	// boolean constants, so asserting them at the end of the header is equivalent. The header ends
	// at the first declare-fun.
	i := strings.Index(body, "(declare-fun")
	if i < 0 {
		return body
	}
	pre.WriteString(body[:i])
	for cd, en := range r.enable {
		if cd.alive {
			fmt.Fprintf(&pre, "(declare-fun %s () Bool)\n(assert %s)\n", en.name, en.name)
		}
	}
	rest := body[i:]
	// drop the original declarations of the enabled flags (they are declared above)
	for cd, en := range r.enable {
		if cd.alive {
			rest = strings.Replace(rest, fmt.Sprintf("(declare-fun %s () Bool)\n", en.name), "", 1)
		}
	}
	pre.WriteString(rest)
	return pre.String()
}

type scanRoundStat struct {
	Round   int     `json:"round"`
	Regions int     `json:"regions"`
	Checks  int     `json:"checks"`
	Dropped int     `json:"dropped"`
	Secs    float64 `json:"secs"`
}

const scanChunk = 1500

// conjuncts flattens nested conjunctions (so that the quantifier-free rendering keeps the
// quantifier-free conjuncts of an assumption).
func conjuncts(t *Term) []*Term {
	if t.op != "and" {
		return []*Term{t}
	}
	var out []*Term
	for _, a := range t.args {
		out = append(out, conjuncts(a)...)
	}
	return out
}

func goalQuantified(o *Obligation) bool {
	g := o.Goal.String()
	return strings.Contains(g, "(forall ") || strings.Contains(g, "(exists ")
}

// runChunks renders and solves the selected obligations in chunks; qf selects the rendering
// without quantified assertions.
func (se *scanEngine) runChunks(r *scanRegion, idx []int, timeoutMs int, sem chan struct{}, qf bool) map[int]string {
	res := map[int]string{}
	var mu sync.Mutex
	var wg sync.WaitGroup
	for lo := 0; lo < len(idx); lo += scanChunk {
		hi := lo + scanChunk
		if hi > len(idx) {
			hi = len(idx)
		}
		part := map[int]bool{}
		for _, i := range idx[lo:hi] {
			part[i] = true
		}
		wg.Add(1)
		go func(part map[int]bool) {
			defer wg.Done()
			sem <- struct{}{}
			defer func() { <-sem }()
			text := r.render("z3-new", timeoutMs, part, qf)
			dumpScript(r.x.Sc.Name, "z3-new", text)
			out, _ := runSolver(solverByName("z3-new"), text, time.Duration(len(part)*timeoutMs+60000)*time.Millisecond)
			st := parseBatch(out)
			mu.Lock()
			for i := range part {
				v, ok := st[i]
				if !ok {
					v = "unknown"
					if e, bad := st[-1]; bad {
						v = "error: " + e
					}
				}
				res[i] = v
			}
			mu.Unlock()
		}(part)
	}
	wg.Wait()
	return res
}

// solveRegion checks the selected obligations of a region under the currently alive candidates of
// its cut. Pass 1 uses the quantifier-free part of the context (definitive sat/unsat, fast); goals
// that are themselves quantified, and (when retry is set) goals that pass 1 could not prove, are
// then checked with the full context; what the incremental solver leaves `unknown` there is retried
// alone in a fresh solver.
func (se *scanEngine) solveRegion(r *scanRegion, only map[int]bool, timeoutMs int, sem chan struct{}, retry func(o *Obligation) bool) map[int]string {
	var qfIdx, fullIdx []int
	for i := range only {
		if goalQuantified(r.x.Sc.Obls[i]) {
			fullIdx = append(fullIdx, i)
		} else {
			qfIdx = append(qfIdx, i)
		}
	}
	sort.Ints(qfIdx)
	if se.alwaysFull {
		fullIdx = append(fullIdx, qfIdx...)
		qfIdx = nil
	}
	res := se.runChunks(r, qfIdx, timeoutMs, sem, true)
	for _, i := range qfIdx {
		if res[i] != "unsat" && retry != nil && retry(r.x.Sc.Obls[i]) {
			fullIdx = append(fullIdx, i)
		}
	}
	sort.Ints(fullIdx)
	if len(fullIdx) > 0 {
		full := se.runChunks(r, fullIdx, timeoutMs, sem, false)
		var wg sync.WaitGroup
		var mu sync.Mutex
		for _, i := range fullIdx {
			res[i] = full[i]
			if full[i] == "unsat" || full[i] == "sat" {
				continue
			}
			wg.Add(1)
			go func(i int) {
				defer wg.Done()
				sem <- struct{}{}
				defer func() { <-sem }()
				text := r.renderOne("z3-new", 5000, i)
				out, _ := runSolver(solverByName("z3-new"), text, 30*time.Second)
				v := parseBatch(out)[i]
				if v == "" {
					v = "unknown"
				}
				mu.Lock()
				res[i] = v
				if v != "unsat" {
					r.x.Sc.Obls[i].Output = out
				}
				mu.Unlock()
			}(i)
		}
		wg.Wait()
	}
	return res
}

// renderOne renders one obligation alone (fresh solver, no push/pop) with the alive candidates enabled.
func (r *scanRegion) renderOne(solver string, timeoutMs int, i int) string {
	text := r.x.Sc.renderSingle(solver, timeoutMs, i)
	for cd, en := range r.enable {
		if cd.alive {
			text = strings.Replace(text, fmt.Sprintf("(declare-fun %s () Bool)\n", en.name), fmt.Sprintf("(declare-fun %s () Bool)\n(assert %s)\n", en.name, en.name), 1)
		}
	}
	return text
}

// houdini drops unprovable candidates until the rest is inductive. Returns per-round statistics.
func (se *scanEngine) houdini(par, timeoutMs int, verbose bool) []scanRoundStat {
	var stats []scanRoundStat
	for _, c := range se.order {
		c.dirty = true
	}
	sem := make(chan struct{}, par)
	for round := 1; ; round++ {
		t0 := time.Now()
		var work []*scanCut
		for _, c := range se.order {
			if c.dirty && c.region.err == "" {
				work = append(work, c)
			}
			c.dirty = false
		}
		if len(work) == 0 {
			break
		}
		type res struct {
			c      *scanCut
			failed []scanEdgeObl
			checks int
		}
		results := make([]res, len(work))
		var wg sync.WaitGroup
		for i, c := range work {
			wg.Add(1)
			go func(i int, c *scanCut) {
				defer wg.Done()
				r := c.region
				only := map[int]bool{}
				for _, e := range r.edges {
					if e.cand.alive {
						only[e.obl] = true
					}
				}
				results[i].c = c
				results[i].checks = len(only)
				if len(only) == 0 {
					return
				}
				st := se.solveRegion(r, only, timeoutMs, sem, func(o *Obligation) bool { return o.Note == "full" && r.usesStack })
				for _, e := range r.edges {
					if only[e.obl] && st[e.obl] != "unsat" {
						results[i].failed = append(results[i].failed, e)
					}
				}
			}(i, c)
		}
		wg.Wait()
		dropped := 0
		checks := 0
		for _, rs := range results {
			checks += rs.checks
			for _, e := range rs.failed {
				if e.cand.alive {
					e.cand.alive = false
					dropped++
					e.target.dirty = true // its region's assumptions got weaker
					if os.Getenv("VC_SCAN_TRACE") != "" {
						fmt.Printf("  drop %s:%s (region %s edge %s)\n", e.target.name, e.cand.src, rs.c.name, rs.c.region.x.Sc.Obls[e.obl].Name)
					}
				}
			}
		}
		stats = append(stats, scanRoundStat{Round: round, Regions: len(work), Checks: checks, Dropped: dropped, Secs: time.Since(t0).Seconds()})
		if verbose {
			fmt.Printf("houdini round %d: regions=%d checks=%d dropped=%d %.1fs\n", round, len(work), checks, dropped, time.Since(t0).Seconds())
		}
		if dropped == 0 {
			break
		}
	}
	return stats
}

// finalRound proves, under the surviving candidates, every edge obligation of a surviving candidate
// (inductiveness) and every safety / postcondition obligation. Statuses are stored in the obligations.
func (se *scanEngine) finalRound(par, timeoutMs int) (edgeChecks int, obls []*Obligation) {
	sem := make(chan struct{}, par)
	var wg sync.WaitGroup
	var mu sync.Mutex
	for _, c := range se.order {
		if c.region.err != "" {
			continue
		}
		wg.Add(1)
		go func(c *scanCut) {
			defer wg.Done()
			r := c.region
			only := map[int]bool{}
			for _, e := range r.edges {
				if e.cand.alive {
					only[e.obl] = true
				}
			}
			ne := len(only)
			for _, i := range r.safety {
				only[i] = true
			}
			st := se.solveRegion(r, only, timeoutMs, sem, func(o *Obligation) bool { return o.Class != "inv" || (o.Note == "full" && r.usesStack) })
			mu.Lock()
			edgeChecks += ne
			for i := range only {
				o := r.x.Sc.Obls[i]
				o.Status = st[i]
				o.Solver = "z3-new"
				obls = append(obls, o)
			}
			mu.Unlock()
		}(c)
	}
	wg.Wait()
	sort.Slice(obls, func(i, j int) bool { return obls[i].Name < obls[j].Name })
	return
}
