package main

// E-GRAM, part 3: inference of the non-terminal contracts (least fixpoint over the rules).
// NT(A) describes every value an action of A can leave in $$: the possible dynamic types, which
// slots are still nil (half-built carriers), the length relation between a list slot and its
// separator slot, whether Position is set. The inferred contracts are not trusted: the checking
// pass re-executes every rule against them, so they are inductive by construction of that pass
// (a rule that does not establish NT(A) from NT(Xi) would have produced a larger NT(A)).

import (
	"fmt"
	"os"
	"go/types"
	"sort"
	"strings"
)

// yield layout of a struct type: the printable slots in printing order
type yItem struct {
	Kind string // tok | node | list | il
	Slot string
	Sep  string // il: separator slot
}

type gramCtx struct {
	carrier map[string]bool // ast types that some action opens as a half-built carrier
	carrierGrew bool
	depth   int
	W       *World
	Layout  map[string][]yItem // type name -> layout
	LayoutSrc map[string]string
	Problems []string
	Builder map[string]*builderSem
}

// summarise the value left in $$ at the end of a path
func (r *gRun) listFacts(l *gList) (isNil, isEmpty, nonEmpty, elemsNonNil, elemsPos bool) {
	elemsNonNil, elemsPos = true, true
	if l.Base != nil {
		b := l.Base
		if !b.ElemsNonNil {
			elemsNonNil = false
		}
		if !b.ElemsPos {
			elemsPos = false
		}
	}
	for _, e := range append(append([]gv{}, l.Pre...), l.App...) {
		switch x := e.(type) {
		case gNil:
			elemsNonNil = false
		case gRef:
			if x.Obj.MaybeNil {
				if d, ok := r.facts[fmt.Sprintf("nil:%d", x.Obj.ID)]; !ok || d {
					elemsNonNil = false
				}
			}
			if !r.posSetOf(x.Obj) {
				elemsPos = false
			}
		default:
			elemsNonNil = false
			elemsPos = false
		}
	}
	if len(l.App) > 0 || len(l.Pre) > 0 {
		return false, false, true, elemsNonNil, elemsPos
	}
	if l.Base != nil {
		if d, ok := r.facts[fmt.Sprintf("lempty:%d", l.Base.ID)]; ok {
			if !d {
				return false, false, true, elemsNonNil, elemsPos
			}
			if dn, okn := r.facts[fmt.Sprintf("lnil:%d", l.Base.ID)]; okn {
				return dn, !dn, false, elemsNonNil, elemsPos
			}
			return l.Base.LNil && !l.NonNil, l.Base.LEmpty || l.NonNil, false, elemsNonNil, elemsPos
		}
	}
	if l.Base == nil {
		if l.NonNil {
			return false, true, false, elemsNonNil, elemsPos
		}
		return true, false, false, elemsNonNil, elemsPos
	}
	b := l.Base
	if d, ok := r.facts[fmt.Sprintf("lnil:%d", b.ID)]; ok {
		if d {
			return true, false, false, elemsNonNil, elemsPos
		}
		return false, b.LEmpty, b.LNonEmpty, elemsNonNil, elemsPos
	}
	return b.LNil && !l.NonNil, b.LEmpty || (b.LNil && l.NonNil), b.LNonEmpty, elemsNonNil, elemsPos
}

// posSetOf: is the Position field of the node known to be non-nil after the action?
func (r *gRun) posSetOf(o *gObj) bool {
	if v, ok := o.Fields["Position"]; ok {
		switch x := v.(type) {
		case gRef:
			if !x.Obj.MaybeNil {
				return true
			}
			if d, ok := r.facts[fmt.Sprintf("nil:%d", x.Obj.ID)]; ok && !d {
				return true
			}
			return false
		}
		return false
	}
	if !o.Input {
		return false
	}
	if o.Alt != nil {
		return o.Alt.PosSet
	}
	if o.Alts != nil {
		for _, a := range o.Alts {
			if !a.Nil && !a.PosSet {
				return false
			}
		}
		return true
	}
	// old child / list element of a finished node: part of the tree-shape invariant
	if o.Parent != nil && (o.Parent.Kind == "list") {
		return o.Parent.ElemsPos
	}
	return false
}

func (g *gramCtx) altOfObj(r *gRun, o *gObj) []*ntAlt {
	if o.T == nil {
		// pass-through of an input whose shape was never inspected
		if o.Alts != nil {
			var out []*ntAlt
			nilFact, decided := r.facts[fmt.Sprintf("nil:%d", o.ID)]
			for _, a := range o.Alts {
				if decided && a.Nil != nilFact {
					continue
				}
				out = append(out, a)
			}
			return out
		}
		return []*ntAlt{{Any: true, PosSet: r.posSetOf(o)}}
	}
	a := &ntAlt{T: o.T, NilF: map[string]bool{}, NonNilF: map[string]bool{}, Rel: map[string]string{}, NonEmpty: map[string]bool{}, ElemAlts: map[string][]*ntAlt{}, ChildAlts: map[string][]*ntAlt{}}
	isCarrier := !strings.HasPrefix(typeName(o.T), "pkg/ast.") || g.carrier[typeName(o.T)]
	if o.Input && o.Opened && o.T != nil && !g.carrier[typeName(o.T)] && strings.HasPrefix(typeName(o.T), "pkg/ast.") {
		g.carrier[typeName(o.T)] = true
		g.carrierGrew = true
	}
	st, _ := o.T.Underlying().(*types.Struct)
	if st == nil {
		return []*ntAlt{{Any: true}}
	}
	allNil := true
	for i := 0; i < st.NumFields(); i++ {
		f := st.Field(i)
		cls := classifySlot(f.Type())
		var v gv
		if w, ok := o.Fields[f.Name()]; ok {
			v = w
		} else if !o.Input {
			v = zeroG(f.Type())
		} else if o.Alt != nil && o.Alt.NilF[f.Name()] {
			v = zeroG(f.Type())
		} else if pv, ok := o.Pre[f.Name()]; ok {
			v = pv
		} else {
			// untouched field of an input: facts carry over
			if o.Alt != nil && o.Alt.NonEmpty[f.Name()] {
				a.NonEmpty[f.Name()] = true
			}
			if o.Alt != nil && o.Alt.NonNilF[f.Name()] {
				a.NonNilF[f.Name()] = true
			}
			if o.Alt != nil && o.Alt.ElemAlts[f.Name()] != nil {
				for _, e := range o.Alt.ElemAlts[f.Name()] {
					a.ElemAlts[f.Name()] = append(a.ElemAlts[f.Name()], copyAlt(e))
				}
			}
			if o.Alt != nil && o.Alt.ChildAlts[f.Name()] != nil {
				for _, e := range o.Alt.ChildAlts[f.Name()] {
					a.ChildAlts[f.Name()] = append(a.ChildAlts[f.Name()], copyAlt(e))
				}
			}
			if cls != "other" {
				allNil = false
			}
			continue
		}
		switch cls {
		case "token", "vertex", "position":
			switch x := v.(type) {
			case gNil:
				a.NilF[f.Name()] = true
			case gRef:
				if d, ok := r.facts[fmt.Sprintf("nil:%d", x.Obj.ID)]; ok && d {
					a.NilF[f.Name()] = true
				} else {
					allNil = false
					if !x.Obj.MaybeNil || (ok && !d) {
						a.NonNilF[f.Name()] = true
					}
					if cls == "vertex" && isCarrier && x.Obj.Kind == "node" && g.depth < 2 {
						g.depth++
						cas := g.altOfObj(r, x.Obj)
						g.depth--
						var shallow []*ntAlt
						okc := true
						for _, ca := range cas {
							if ca.Any {
								okc = false
							}
							cc := copyAlt(ca)
							cc.ElemAlts = map[string][]*ntAlt{}
							cc.ChildAlts = map[string][]*ntAlt{}
							shallow = append(shallow, cc)
						}
						if okc && len(shallow) > 0 {
							if x.Obj.MaybeNil && !(ok && !d) {
								shallow = append(shallow, &ntAlt{Nil: true})
							}
							a.ChildAlts[f.Name()] = shallow
						}
					}
				}
			default:
				allNil = false
			}
		case "vertices", "tokens":
			switch x := v.(type) {
			case gNil:
				a.NilF[f.Name()] = true
			case *gList:
				isNil, isEmpty, nonEmpty, _, _ := r.listFacts(x)
				if (isNil || isEmpty) && !nonEmpty {
					a.NilF[f.Name()] = true
				}
				if !(isNil && !isEmpty && !nonEmpty) {
					allNil = false
				}
				if nonEmpty && !isNil && !isEmpty {
					a.NonEmpty[f.Name()] = true
				}
				if cls == "vertices" && !strings.HasPrefix(typeName(o.T), "pkg/ast.") {
					// element shapes are tracked for the parser-private carrier types only: actions
					// never inspect the elements of a finished ast node's lists
					a.ElemAlts[f.Name()] = g.elemAltsOf(r, x)
				}
			default:
				allNil = false
			}
		case "value":
			if _, isNil := v.(gNil); !isNil {
				allNil = false
			}
		}
	}
	a.Empty = allNil && !o.Input
	a.PosSet = r.posSetOf(o)
	// length relations of (list, separators) pairs
	for _, it := range g.Layout[typeName(o.T)] {
		if it.Kind != "il" {
			continue
		}
		a.Rel[it.Slot+"/"+it.Sep] = g.relOf(r, o, it.Slot, it.Sep)
	}
	return []*ntAlt{a}
}

// elemAltsOf: possible shapes of the elements of a list value (nil = unknown)
func (g *gramCtx) elemAltsOf(r *gRun, l *gList) []*ntAlt {
	var out []*ntAlt
	add := func(as []*ntAlt) {
		for _, a := range as {
			dup := false
			for _, b := range out {
				if b.key() == a.key() {
					dup = true
				}
			}
			if !dup {
				out = append(out, a)
			}
		}
	}
	if l.Base != nil {
		b := l.Base
		switch {
		case b.Dollar > 0 && b.ElemAlts != nil:
			add(b.ElemAlts)
		case b.Parent != nil && b.Parent.Alt != nil && b.Parent.Alt.ElemAlts[b.PField] != nil:
			add(b.Parent.Alt.ElemAlts[b.PField])
		default:
			if b.LNonEmpty {
				return nil
			}
		}
	}
	for _, e := range append(append([]gv{}, l.Pre...), l.App...) {
		rf, ok := e.(gRef)
		if !ok || rf.Obj.Kind != "node" {
			return nil
		}
		if g.depth > 3 {
			return nil
		}
		g.depth++
		as := g.altOfObj(r, rf.Obj)
		g.depth--
		var shallow []*ntAlt
		for _, a := range as {
			if a.Any || a.Nil {
				return nil
			}
			c := copyAlt(a)
			c.ElemAlts = map[string][]*ntAlt{}
			c.ChildAlts = map[string][]*ntAlt{}
			shallow = append(shallow, c)
		}
		add(shallow)
	}
	return out
}

// fieldNow: the value of a field at the end of the path without materialising anything
func (r *gRun) fieldNow(o *gObj, f string) (gv, bool) {
	if v, ok := o.Fields[f]; ok {
		return v, true
	}
	if !o.Input {
		return gNil{}, true
	}
	if o.Alt != nil && o.Alt.NilF[f] {
		return gNil{}, true
	}
	if v, ok := o.Pre[f]; ok {
		return v, true
	}
	return nil, false
}

// relOf computes the relation len(seps) vs len(items) for a pair of slots of o.
func (g *gramCtx) relOf(r *gRun, o *gObj, items, seps string) string {
	res := g.relOf1(r, o, items, seps)
	if res == "other" && os.Getenv("VC_GRAM_DEBUG") == "rel" {
		fmt.Printf("relOf=other rule %d %s %s/%s written=%v,%v vals=%s | %s alt=%v\n", r.rule.Num, o.Origin, items, seps, o.Fields[items] != nil, o.Fields[seps] != nil, describeG(o.Fields[items]), describeG(o.Fields[seps]), o.Alt)
	}
	return res
}

func (g *gramCtx) relOf1(r *gRun, o *gObj, items, seps string) string {
	type shp struct {
		par   *gObj // the list is based on field fld of par (nil: no opaque base)
		fld   string
		n     int
		ok    bool
		empty bool // definitely no opaque part
	}
	shapeOf := func(f string) shp {
		v, written := o.Fields[f]
		if !written {
			if !o.Input || (o.Alt != nil && o.Alt.NilF[f]) {
				return shp{ok: true}
			}
			return shp{par: o, fld: f, ok: true}
		}
		switch x := v.(type) {
		case gNil:
			return shp{ok: true}
		case *gList:
			if x.Base == nil {
				return shp{n: len(x.App), ok: true}
			}
			if d, okf := r.facts[fmt.Sprintf("lnil:%d", x.Base.ID)]; okf && d {
				return shp{n: len(x.App), ok: true}
			}
			if x.Base.Parent == nil || x.Base.PField == "" {
				return shp{}
			}
			return shp{par: x.Base.Parent, fld: x.Base.PField, n: len(x.App), ok: true}
		}
		return shp{}
	}
	is, ss := shapeOf(items), shapeOf(seps)
	if !is.ok || !ss.ok {
		return "other"
	}
	n, k := is.n, ss.n
	switch {
	case is.par == nil && ss.par == nil:
		switch {
		case n == 0 && k == 0:
			return "empty"
		case k == n-1:
			return "eq-1"
		case k == n:
			return "eq"
		}
		return "other"
	case is.par != nil && ss.par != nil && is.par == ss.par && is.par.Alt != nil:
		base := is.par.Alt.Rel[is.fld+"/"+ss.fld]
		if os.Getenv("VC_GRAM_DEBUG") == "rel" {
			fmt.Printf("relOf rule %d %s.%s/%s base=%q n=%d k=%d alt=%s\n", r.rule.Num, o.Origin, items, seps, base, n, k, is.par.Alt)
		}
		switch {
		case base == "opaque" && n == 0 && k == 0:
			return "opaque"
		case base == "eq-1" && n == k:
			return "eq-1"
		case base == "eq-1" && k == n+1:
			return "eq"
		case base == "eq" && n == k:
			return "eq"
		case base == "empty" && k == n-1:
			return "eq-1"
		case base == "empty" && k == n && n > 0:
			return "eq"
		case base == "empty" && k == 0 && n == 0:
			return "empty"
		}
	case is.par != nil && ss.par == nil && is.par.Alt != nil:
		// the separators of the base are known to be none (nil by the contract): with eq-1 the base has one item
		sep := g.sepSlotOf(is.par, is.fld)
		if sep != "" && is.par.Alt.NilF[sep] {
			if br := is.par.Alt.Rel[is.fld+"/"+sep]; n == 0 && k == 0 && (br == "opaque" || br == "empty" || br == "eq-1" || br == "eq") {
				return br // the pair is passed on unchanged
			}
			switch is.par.Alt.Rel[is.fld+"/"+sep] {
			case "eq-1":
				if k == n {
					return "eq-1"
				}
				if k == n+1 {
					return "eq"
				}
			}
		}
	case is.par == nil && n == 0 && ss.par != nil && k == 0 && ss.par.Alt != nil:
		// items dropped, separators kept: empty when the separators are known to be none
		for key, rel := range ss.par.Alt.Rel {
			parts := strings.SplitN(key, "/", 2)
			if parts[1] != ss.fld || rel != "eq-1" {
				continue
			}
			if pv, ok := ss.par.Pre[parts[0]]; ok {
				if pl, ok := pv.(*gList); ok && pl.Base != nil {
					if m, known := r.lenEq[pl.Base.ID]; known && m == 1 {
						return "empty"
					}
				}
			}
		}
	}
	return "other"
}

// sepSlotOf: the separator slot printed together with list slot f of o's type
func (g *gramCtx) sepSlotOf(o *gObj, f string) string {
	if o == nil || o.T == nil {
		return ""
	}
	for _, it := range g.Layout[typeName(o.T)] {
		if it.Kind == "il" && it.Slot == f {
			return it.Sep
		}
	}
	return ""
}

// listShape: (opaque base object, number of appended elements)
func listShape(v gv) (*gObj, int, bool) {
	switch x := v.(type) {
	case gNil:
		return nil, 0, true
	case *gList:
		return x.Base, len(x.App), true
	}
	return nil, 0, false
}

func joinAlt(into *ntInfo, a *ntAlt) bool {
	for _, b := range into.Alts {
		if b.key() != a.key() {
			continue
		}
		changed := false
		if a.Nil {
			return false
		}
		if b.PosSet && !a.PosSet {
			b.PosSet = false
			changed = true
		}
		if a.Any {
			return changed
		}
		for f := range b.NilF {
			if !a.NilF[f] {
				delete(b.NilF, f)
				changed = true
			}
		}
		for f := range b.NonEmpty {
			if !a.NonEmpty[f] {
				delete(b.NonEmpty, f)
				changed = true
			}
		}
		for f := range b.NonNilF {
			if !a.NonNilF[f] {
				delete(b.NonNilF, f)
				changed = true
			}
		}
		for k, v := range b.Rel {
			av := a.Rel[k]
			if av == v || v == "other" {
				continue
			}
			// different definite relations: the pair can still be passed on as a unit, but nothing
			// may be appended to it
			nv := "opaque"
			if av == "other" || av == "" {
				nv = "other"
			}
			if nv != v {
				if os.Getenv("VC_GRAM_DEBUG") == "rel" && nv == "other" {
					fmt.Printf("joinAlt: %s rel %s: %q join %q -> other\n", b.key(), k, v, av)
				}
				b.Rel[k] = nv
				changed = true
			}
		}
		for f, bes := range b.ElemAlts {
			aes := a.ElemAlts[f]
			if bes == nil {
				continue
			}
			if aes == nil {
				if !a.NilF[f] {
					b.ElemAlts[f] = nil
					changed = true
				}
				continue
			}
			tmp := &ntInfo{Alts: bes}
			for _, e := range aes {
				if joinAlt(tmp, e) {
					changed = true
				}
			}
			b.ElemAlts[f] = tmp.Alts
		}
		for f, bes := range b.ChildAlts {
			aes := a.ChildAlts[f]
			if bes == nil {
				continue
			}
			if aes == nil {
				if a.NilF[f] {
					aes = []*ntAlt{{Nil: true}}
				} else {
					b.ChildAlts[f] = nil
					changed = true
					continue
				}
			}
			tmp := &ntInfo{Alts: bes}
			for _, e := range aes {
				if joinAlt(tmp, e) {
					changed = true
				}
			}
			b.ChildAlts[f] = tmp.Alts
		}
		for f, aes := range a.ChildAlts {
			if _, ok := b.ChildAlts[f]; !ok && aes != nil && b.NilF[f] {
				cp := []*ntAlt{{Nil: true}}
				for _, e := range aes {
					if !e.Nil {
						cp = append(cp, copyAlt(e))
					}
				}
				b.ChildAlts[f] = cp
				changed = true
			}
		}
		for f, aes := range a.ElemAlts {
			if _, ok := b.ElemAlts[f]; !ok && aes != nil && b.NilF[f] {
				var cp []*ntAlt
				for _, e := range aes {
					cp = append(cp, copyAlt(e))
				}
				b.ElemAlts[f] = cp
				changed = true
			}
		}
		return changed
	}
	into.Alts = append(into.Alts, copyAlt(a))
	return true
}

func copyAlt(a *ntAlt) *ntAlt {
	c := &ntAlt{Nil: a.Nil, Any: a.Any, T: a.T, Empty: a.Empty, PosSet: a.PosSet, NilF: map[string]bool{}, NonNilF: map[string]bool{}, Rel: map[string]string{}, NonEmpty: map[string]bool{}, ElemAlts: map[string][]*ntAlt{}, ChildAlts: map[string][]*ntAlt{}}
	for k, v := range a.ChildAlts {
		if v == nil {
			c.ChildAlts[k] = nil
			continue
		}
		var cp []*ntAlt
		for _, e := range v {
			cp = append(cp, copyAlt(e))
		}
		c.ChildAlts[k] = cp
	}
	for k, v := range a.NilF {
		c.NilF[k] = v
	}
	for k, v := range a.NonNilF {
		c.NonNilF[k] = v
	}
	for k, v := range a.Rel {
		c.Rel[k] = v
	}
	for k, v := range a.NonEmpty {
		c.NonEmpty[k] = v
	}
	for k, v := range a.ElemAlts {
		if v == nil {
			c.ElemAlts[k] = nil
			continue
		}
		var cp []*ntAlt
		for _, e := range v {
			cp = append(cp, copyAlt(e))
		}
		c.ElemAlts[k] = cp
	}
	return c
}

// summarise $$ of a finished path into the contract of the left-hand side; reports change.
func (g *gramCtx) absorb(gp *gramParser, r *gRun, ni *ntInfo) bool {
	changed := false
	if !ni.Seen {
		ni.Seen = true
		changed = true
		if ni.Kind == "list" {
			ni.ElemsNonNil, ni.ElemsPos = true, true
		}
	}
	switch ni.Kind {
	case "token":
		v := r.yyval["token"]
		mn := false
		switch x := v.(type) {
		case gNil:
			mn = true
		case gRef:
			if x.Obj.MaybeNil {
				if d, ok := r.facts[fmt.Sprintf("nil:%d", x.Obj.ID)]; !ok || d {
					mn = true
				}
			}
		default:
			mn = true
		}
		if mn && !ni.MaybeNil {
			ni.MaybeNil = true
			changed = true
		}
	case "list":
		v := r.yyval["list"]
		var isNil, isEmpty, nonEmpty, enn, epos bool
		switch x := v.(type) {
		case gNil:
			isNil, enn, epos = true, true, true
		case *gList:
			isNil, isEmpty, nonEmpty, enn, epos = r.listFacts(x)
		default:
			isNil, isEmpty, nonEmpty = true, true, true
		}
		if isNil && !ni.ListNil {
			ni.ListNil, changed = true, true
		}
		if isEmpty && !ni.ListEmpty {
			ni.ListEmpty, changed = true, true
		}
		if nonEmpty && !ni.ListNonEmpty {
			ni.ListNonEmpty, changed = true, true
		}
		if !enn && ni.ElemsNonNil {
			ni.ElemsNonNil, changed = false, true
		}
		if !epos && ni.ElemsPos {
			ni.ElemsPos, changed = false, true
		}
		if l, ok := v.(*gList); ok {
			// shapes of element 0
			var first []*ntAlt
			firstKnown := false
			switch {
			case len(l.Pre) > 0:
				first, firstKnown = g.elemAltsOf(r, &gList{App: l.Pre[:1]}), true
			case l.Base != nil && l.Base.Dollar > 0 && (l.Base.LNonEmpty && !l.Base.LNil && !l.Base.LEmpty):
				first, firstKnown = l.Base.FirstAlts, true
				if first == nil {
					first = l.Base.ElemAlts
				}
			case l.Base == nil && len(l.App) > 0:
				first, firstKnown = g.elemAltsOf(r, &gList{App: l.App[:1]}), true
			case l.Base != nil || len(l.App) > 0:
				first, firstKnown = g.elemAltsOf(r, l), true
			}
			if firstKnown {
				if first == nil {
					if ni.FirstAlts != nil {
						ni.FirstAlts, changed = nil, true
					}
					ni.firstDead = true
				} else if !ni.firstDead {
					tmp := &ntInfo{Alts: ni.FirstAlts}
					for _, e := range first {
						if joinAlt(tmp, e) {
							changed = true
						}
					}
					ni.FirstAlts = tmp.Alts
				}
			}
			eas := g.elemAltsOf(r, l)
			hasElems := l.Base != nil || len(l.App) > 0 || len(l.Pre) > 0
			switch {
			case !hasElems:
			case eas == nil:
				if !ni.ElemAltsSet || ni.ElemAlts != nil {
					ni.ElemAltsSet, ni.ElemAlts, changed = true, nil, true
				}
			case !ni.ElemAltsSet:
				ni.ElemAltsSet, changed = true, true
				for _, e := range eas {
					ni.ElemAlts = append(ni.ElemAlts, copyAlt(e))
				}
			case ni.ElemAlts != nil:
				tmp := &ntInfo{Alts: ni.ElemAlts}
				for _, e := range eas {
					if joinAlt(tmp, e) {
						changed = true
					}
				}
				ni.ElemAlts = tmp.Alts
			}
		}
	case "node":
		v := r.yyval["node"]
		switch x := v.(type) {
		case gNil:
			if joinAlt(ni, &ntAlt{Nil: true}) {
				changed = true
			}
		case gRef:
			if x.Obj.MaybeNil {
				if d, ok := r.facts[fmt.Sprintf("nil:%d", x.Obj.ID)]; ok && d {
					if joinAlt(ni, &ntAlt{Nil: true}) {
						changed = true
					}
					break
				}
			}
			for _, a := range g.altOfObj(r, x.Obj) {
				if joinAlt(ni, a) {
					changed = true
				}
			}
			if x.Obj.MaybeNil && x.Obj.Alts == nil {
				if _, ok := r.facts[fmt.Sprintf("nil:%d", x.Obj.ID)]; !ok {
					if joinAlt(ni, &ntAlt{Nil: true}) {
						changed = true
					}
				}
			}
		default:
			// stale or opaque: the checking pass reports it; contract: anything
			if joinAlt(ni, &ntAlt{Any: true}) {
				changed = true
			}
		}
	}
	return changed
}

// inferNT runs the rules to a fixpoint.
func (g *gramCtx) inferNT(gp *gramParser) (map[string]*ntInfo, int) {
	nts := map[string]*ntInfo{}
	for _, rule := range gp.G.Rules {
		if nts[rule.LHS] == nil {
			k := gp.G.Type[rule.LHS]
			if k == "" {
				k = "none"
			}
			nts[rule.LHS] = &ntInfo{Kind: k}
		}
	}
	rounds := 0
	for {
		rounds++
		changed := false
		for _, rule := range gp.G.Rules {
			ni := nts[rule.LHS]
			if ni.Kind == "none" {
				ni.Seen = true
				continue
			}
			paths, _ := gp.runRule(rule, nts, 256)
			for _, p := range paths {
				if p.Aborted != "" {
					continue
				}
				before := ""
				if os.Getenv("VC_GRAM_DEBUG") != "" {
					before = ni.String()
				}
				if g.absorb(gp, p.Run, ni) {
					changed = true
					if os.Getenv("VC_GRAM_DEBUG") != "" && rounds > 8 {
						fmt.Printf("round %d rule %d %s changed %s\n   from %s\n   to   %s\n", rounds, rule.Num, rule, rule.LHS, before, ni.String())
					}
				}
			}
		}
		if g.carrierGrew {
			g.carrierGrew = false
			changed = true
		}
		if gp.ExplicitGrew {
			gp.ExplicitGrew = false
			changed = true
		}
		if !changed || rounds > 40 {
			break
		}
	}
	return nts, rounds
}

func debugGramNT(name string, syms []string) int {
	w, err := loadWorld("./...")
	if err != nil {
		fmt.Println(err)
		return 2
	}
	gp, err := loadGramParser(w, name)
	if err != nil {
		fmt.Println(err)
		return 2
	}
	g := newGramCtx(w, gp)
	nts, rounds := g.inferNT(gp)
	fmt.Printf("%s: fixpoint after %d rounds; problems: %v\n", name, rounds, g.Problems)
	var names []string
	for n := range nts {
		names = append(names, n)
	}
	sort.Strings(names)
	for _, n := range names {
		if len(syms) > 0 {
			found := false
			for _, s := range syms {
				if s == n {
					found = true
				}
			}
			if !found {
				continue
			}
		}
		fmt.Printf("  %-40s %s\n", n, strings.ReplaceAll(nts[n].String(), " | ", "\n"+strings.Repeat(" ", 45)+"| "))
	}
	return 0
}
