package main

// C17 (partial): per-kind contracts on the formatter, over the symbolic traces of its 155 methods.
//
//   canon   every token slot of the kind is assigned on every path, and the last assignment is nil
//           or a token made by the formatter in this call (newToken / newSemicolonTkn / formatList /
//           a formatter helper): no parsed token - with the source's own whitespace and comments
//           attached - survives, so the printed text cannot depend on the source layout through
//           this node ("the formatted text depends only on that structure")
//   frame   the method stores only into token slots of its node and into the formatter's own
//           fields: child slots, list slots and values keep what the parser put there ("a tree
//           with the same structure and values"); formatStmts' insertion of a `?>` nop is the one
//           named exception (pinned helper)
//   lexeme  a token the formatter makes for a slot carries the lexeme the printer would use for
//           that slot when the token is absent (the construct's canonical lexeme), so formatting
//           cannot turn one construct into another
//
// Not covered (said in MANIFEST): that the printed result re-parses to the same tree, idempotence
// through print-and-reparse, and absence of panics on absent optional children.

import (
	"go/types"
	"fmt"
	"regexp"
	"sort"
	"strings"
)

var reStoreSlot = regexp.MustCompile(`^&n\.([A-Za-z0-9_]+)$`)
var reStoreOwn = regexp.MustCompile(`^&f\.([A-Za-z0-9_]+)$`)
var reStoreTrivia = regexp.MustCompile(`^&n\.([A-Za-z0-9_]+)\.FreeFloating$`)

// pathSaysNil: the path condition states that the slot holds no token.
func pathSaysNil(p *TPath, slot string) bool {
	for _, cd := range p.Conds {
		if (cd.E.S == "(n."+slot+" != nil)" && !cd.Val) || (cd.E.S == "(n."+slot+" == nil)" && cd.Val) {
			return true
		}
	}
	return false
}

// pathSaysNonNil: the path condition states that the child slot is present.
func pathSaysNonNil(p *TPath, slot string) bool {
	for _, cd := range p.Conds {
		if (cd.E.S == "(n."+slot+" != nil)" && cd.Val) || (cd.E.S == "(n."+slot+" == nil)" && !cd.Val) {
			return true
		}
	}
	return false
}

// checkFormatListEmpty: formatList allocates len(nodes)-1 separators; parsed trees have empty lists (`list()`,
// `array()`, `[]`), so every path of the helper that allocates must be conditioned on a non-empty list.
func (c *CheckCtx) checkFormatListEmpty(f *traceFamily, prefix string) {
	fn := f.Methods["formatList"]
	if fn == nil {
		return
	}
	paths, errs := f.trace("formatList")
	if errs != "" {
		c.addOb(prefix+"/helper/formatList/nil/empty-list", "nil", "", false, "cannot trace formatList: "+errs)
		return
	}
	var bad []string
	for _, p := range paths {
		allocates := false
		var walk func(evs []*TEvent)
		walk = func(evs []*TEvent) {
			for _, e := range evs {
				if e.Kind == "loop" {
					allocates = allocates || strings.Contains(renderEvents([]*TEvent{e}), "make:")
				}
				for _, a := range e.Args {
					if strings.Contains(a.S, "make:") {
						allocates = true
					}
				}
			}
		}
		walk(p.Events)
		if len(p.Ret) > 0 && strings.Contains(fmt.Sprint(p.Ret), "make:") {
			allocates = true
		}
		guarded := false
		for _, cd := range p.Conds {
			s := cd.E.S
			if (strings.Contains(s, "len(nodes) == 0") && !cd.Val) || (strings.Contains(s, "len(nodes) > 0") && cd.Val) || (strings.Contains(s, "len(nodes) < 1") && !cd.Val) || (strings.Contains(s, "len(nodes) != 0") && cd.Val) || (strings.Contains(s, "len(nodes) >= 1") && cd.Val) {
				guarded = true
			}
		}
		if allocates && !guarded {
			bad = append(bad, fmt.Sprintf("a path of formatList allocates len(nodes)-1 separators without testing that the list is not empty [%s]", p.condString()))
		}
	}
	c.addOb(prefix+"/helper/formatList/nil/empty-list", "nil", c.W.pos(fn.Pos()), len(bad) == 0, strings.Join(bad, "\n"))
}

var rePaired = regexp.MustCompile(`^ifNode(?:List)?\(n\.([A-Za-z0-9_]+), (".*")\)$`)

// pathSaysAbsent: the path condition states that the child slot is nil / empty.
func pathSaysAbsent(p *TPath, slot string) bool {
	for _, cd := range p.Conds {
		if (cd.E.S == "(n."+slot+" != nil)" && !cd.Val) || (cd.E.S == "(n."+slot+" == nil)" && cd.Val) ||
			(cd.E.S == "(len(n."+slot+") > 0)" && !cd.Val) {
			return true
		}
	}
	return false
}

var reNewToken = regexp.MustCompile(`^result\(f\.newToken\((\d+), (".*")\)\)$`)

func (c *CheckCtx) checkFormatter(kinds []kindInfo) {
	pkg := modPath + "/pkg/visitor/formatter"
	f := loadFamily(c.W, pkg, "(*formatter)")
	prefix := "pkg/visitor/formatter"
	c.checkHelpers(f, prefix)
	// the printer's default lexeme per (kind, token slot)
	pf := loadFamily(c.W, modPath+"/pkg/visitor/printer", "(*printer)")
	pdirs := traceDirectives(c.W, modPath+"/pkg/visitor/printer")
	allowWrite := map[string]bool{}
	for _, a := range pdirs["allow-write"] {
		allowWrite[a] = true
	}
	defaults := map[string]map[string]string{} // kind -> slot -> literal (Go-quoted) ; absent = no literal default
	pairedWith := map[string]map[string]string{} // kind -> token slot -> child slot the printer ties its default to
	for ki := range kinds {
		k := &kinds[ki]
		paths, err := pf.trace(k.Name)
		if err != "" {
			continue
		}
		defaults[k.Name] = map[string]string{}
		pairedWith[k.Name] = map[string]string{}
		for _, p := range paths {
			items, _ := printerItems(k, p, allowWrite)
			for _, it := range items {
				if it.Kind == "token" && it.Def != nil && it.Def.Kind == "lit" {
					defaults[k.Name][it.Slot] = it.Def.S
				}
				if it.Kind == "tokens" {
					// the separators of a list are paired with the list
					for _, jt := range items {
						if jt.Kind == "vertices" && jt.Ev == it.Ev {
							pairedWith[k.Name][it.Slot] = jt.Slot
						}
					}
				}
				if it.Kind == "token" && it.Def != nil {
					if m := rePaired.FindStringSubmatch(it.Def.S); m != nil {
						pairedWith[k.Name][it.Slot] = m[1]
						defaults[k.Name][it.Slot] = m[2]
					}
				}
			}
		}
	}
	dirs := traceDirectives(c.W, pkg)
	lexOK := map[string]bool{} // "Kind.Slot" -> named exception of the lexeme rule
	for _, d := range dirs["lexeme-differs"] {
		if fs := strings.Fields(d); len(fs) > 0 {
			lexOK[fs[0]] = true
		}
	}
	parsedNil := map[string]bool{} // "Kind.Slot": a parsed tree has no token there on the paths that leave it alone (assumed, listed)
	for _, d := range dirs["parsed-nil"] {
		if fs := strings.Fields(d); len(fs) > 0 {
			parsedNil[fs[0]] = true
			c.assume("formatter: " + strings.TrimSpace(d))
		}
	}
	pairingUsed := false
	defer func() {
		if pairingUsed {
			c.assume("formatter/pairing: a parsed tree has a companion token (`=`, `=>`, `:`, `extends`, `as`, `::` ...) exactly when it has the child the printer ties that token's default lexeme to (ifNode/ifNodeList); the formatter leaves such a slot alone when the child is absent")
		}
	}()
	// F2 (no panic on absent optional children): which vertex slots can be nil in a parsed tree is read off both
	// grammars (E-GRAM: every embedding of a node whose slot is not known to be filled at that moment)
	runs := c.addGram(gramWant{Shape: true})
	maybeNil := map[string]string{}
	tokNoChild := map[string]string{}
	anyEmbeds := 0
	for _, gn := range sortedKeys(runs) {
		r := runs[gn]
		if r == nil || r.Res == nil {
			continue
		}
		anyEmbeds += r.Res.AnyEmbeds
		for k, v := range r.Res.MaybeNil {
			if _, ok := maybeNil[k]; !ok {
				maybeNil[k] = v
			}
		}
		for k, v := range r.Res.TokNoChild {
			if _, ok := tokNoChild[k]; !ok {
				tokNoChild[k] = v
			}
		}
	}
	// cross-check for possible misses: every non-terminal alternative (also half-built carrier states) whose vertex slot is
	// not known to be filled; what is in this larger set but not in maybeNil is listed in the evidence, per formatter site
	allMaybe := map[string]string{}
	for _, gn := range sortedKeys(runs) {
		r := runs[gn]
		if r == nil || r.Res == nil {
			continue
		}
		for sym, ni := range r.Res.NTs {
			var alts []*ntAlt
			alts = append(alts, ni.Alts...)
			alts = append(alts, ni.ElemAlts...)
			for _, a := range alts {
				if a == nil || a.T == nil || a.T.Obj().Pkg() == nil || a.T.Obj().Pkg().Name() != "ast" {
					continue
				}
				st, ok := a.T.Underlying().(*types.Struct)
				if !ok {
					continue
				}
				for i := 0; i < st.NumFields(); i++ {
					fld := st.Field(i)
					if classifySlot(fld.Type()) == "vertex" && !a.NonNilF[fld.Name()] {
						k := a.T.Obj().Name() + "." + fld.Name()
						if _, ok := allMaybe[k]; !ok {
							allMaybe[k] = gn + " symbol " + sym
						}
					}
				}
			}
		}
	}
	c.CoverageExtra["formatter_nil_safety"] = map[string]interface{}{
		"vertex_slots_that_can_be_nil_in_parsed_trees": len(maybeNil),
		"embeddings_of_unknown_kind":                   anyEmbeds,
		"note": "a vertex slot counts as possibly nil when some grammar action embeds a node of that kind whose slot is not known to be filled at that moment (non-terminal contracts of E-GRAM, both grammars); embeddings of nodes whose kind the abstract interpreter does not know contribute nothing (possible misses, counted)",
	}
	carrierOnly := map[string]bool{}
	for _, d := range dirs["carrier-only"] {
		if fs := strings.Fields(d); len(fs) > 0 {
			carrierOnly[fs[0]] = true
			delete(maybeNil, fs[0])
			c.assume("formatter/nil-safety: " + strings.TrimSpace(d))
		}
	}
	c.checkFormatListEmpty(f, prefix)
	carrierStates := map[string]string{}
	defer func() {
		var xs []string
		for k, v := range carrierStates {
			xs = append(xs, k+" ("+v+")")
		}
		sort.Strings(xs)
		if m, ok := c.CoverageExtra["formatter_nil_safety"].(map[string]interface{}); ok {
			m["unguarded_slots_nil_only_in_intermediate_states"] = xs
			m["unguarded_note"] = "slots the formatter dereferences without a nil test that are nil only in some non-terminal alternative that is never embedded as it stands (half-built carriers); not obligations - listed so that a reader can see what the embedding rule leaves out"
		}
	}()
	for ki := range kinds {
		k := &kinds[ki]
		name := fmt.Sprintf("%s.(*formatter).%s", prefix, k.Name)
		if f.Methods[k.Name] == nil {
			c.addOb(name+"/trace/method", "trace", "", false, "the formatter has no method for this node kind")
			continue
		}
		paths, err := f.trace(k.Name)
		if err != "" || len(paths) == 0 {
			c.addOb(name+"/trace/method", "trace", "", false, "cannot trace: "+err)
			continue
		}
		site := c.W.pos(f.Methods[k.Name].Pos())
		var canonBad, frameBad, lexBad, nilBad []string
		tn := k.Name // the struct's type name (the visitor method of a few kinds is named differently)
		if k.Named != nil {
			tn = k.Named.Obj().Name()
		}
		for _, p := range paths {
			last := map[string]string{}
			pc := p.condString()
			for _, e := range p.Events {
				if e.Kind != "call" || e.Callee != "Accept" || e.Recv == nil || !strings.HasPrefix(e.Recv.S, "n.") {
					continue
				}
				slot := strings.TrimPrefix(e.Recv.S, "n.")
				if s := k.slot(slot); s == nil || s.Class != "vertex" {
					continue
				}
				if why, can := maybeNil[tn+"."+slot]; can && !pathSaysNonNil(p, slot) {
					nilBad = append(nilBad, fmt.Sprintf("n.%s.Accept(f) is called without a nil test, but a parsed tree can have %s.%s == nil (%s) [%s]", slot, tn, slot, why, pc))
				} else if why2, can2 := allMaybe[tn+"."+slot]; !can && can2 && !pathSaysNonNil(p, slot) && !carrierOnly[tn+"."+slot] {
					carrierStates[tn+"."+slot] = why2
				}
			}
			for _, e := range p.Events {
				if e.Kind != "store" {
					continue
				}
				tgt, val := e.Args[0].S, e.Args[1].S
				if m := reStoreTrivia.FindStringSubmatch(tgt); m != nil {
					// re-using the parsed token of a leaf but replacing its trivia by the formatter's
					if s := k.slot(m[1]); s != nil && s.Class == "token" && strings.HasPrefix(val, "result(f.") {
						last[m[1]] = val
						continue
					}
				}
				if m := reStoreSlot.FindStringSubmatch(tgt); m != nil {
					s := k.slot(m[1])
					if s == nil {
						frameBad = append(frameBad, fmt.Sprintf("stores into unknown field %s [%s]", m[1], pc))
						continue
					}
					if s.Class != "token" && s.Class != "tokens" {
						frameBad = append(frameBad, fmt.Sprintf("stores into the %s slot %s [%s]", s.Class, m[1], pc))
						continue
					}
					last[m[1]] = val
					continue
				}
				if reStoreOwn.MatchString(tgt) {
					continue
				}
				frameBad = append(frameBad, fmt.Sprintf("store %s := %s is neither a token slot of the node nor formatter state [%s]", tgt, truncate(val, 60), pc))
			}
			for _, s := range k.Slots {
				if s.Class != "token" && s.Class != "tokens" {
					continue
				}
				v, ok := last[s.Name]
				switch {
				case !ok && (pathSaysNil(p, s.Name) || parsedNil[k.Name+"."+s.Name]):
					// absent stays absent
				case !ok && pairedWith[k.Name][s.Name] != "" && pathSaysAbsent(p, pairedWith[k.Name][s.Name]):
					// companion token of an absent child (pairing read off the printer's conditional default): accepted only
					// if no grammar action embeds a node of this kind with the token present and the child possibly absent
					pairingUsed = true
					if why, broken := tokNoChild[tn+"."+s.Name+"|"+pairedWith[k.Name][s.Name]]; broken && !carrierOnly[tn+"."+s.Name] {
						canonBad = append(canonBad, fmt.Sprintf("%s is left as parsed when %s is absent, but a parsed tree can have the token without the child (%s) [%s]", s.Name, pairedWith[k.Name][s.Name], why, pc))
					}
				case !ok:
					canonBad = append(canonBad, fmt.Sprintf("%s is never assigned: the parsed token (with the source's trivia) stays [%s]", s.Name, pc))
				case v == "nil", strings.HasPrefix(v, "result(f."), strings.HasPrefix(v, "make:"):
				default:
					canonBad = append(canonBad, fmt.Sprintf("%s ends as %s, which is not a token made by the formatter [%s]", s.Name, truncate(v, 60), pc))
				}
				if m := reNewToken.FindStringSubmatch(v); m != nil && s.Class == "token" {
					if d, has := defaults[k.Name][s.Name]; has && d != m[2] && !lexOK[k.Name+"."+s.Name] {
						lexBad = append(lexBad, fmt.Sprintf("%s is made with lexeme %s but the printer's lexeme for this slot is %s [%s]", s.Name, m[2], d, pc))
					}
				}
			}
		}
		uniq := func(xs []string) []string {
			sort.Strings(xs)
			var out []string
			for i, x := range xs {
				if i == 0 || x != xs[i-1] {
					out = append(out, x)
				}
			}
			if len(out) > 6 {
				out = append(out[:6], fmt.Sprintf("... and %d more", len(out)-6))
			}
			return out
		}
		c.addOb(name+"/trace/canon", "trace", site, len(canonBad) == 0, strings.Join(uniq(canonBad), "\n"))
		c.addOb(name+"/trace/frame", "trace", site, len(frameBad) == 0, strings.Join(uniq(frameBad), "\n"))
		c.addOb(name+"/trace/lexeme", "trace", site, len(lexBad) == 0, strings.Join(uniq(lexBad), "\n"))
		c.addOb(name+"/nil/absent-child", "nil", site, len(nilBad) == 0, strings.Join(uniq(nilBad), "\n"))
	}
}

func buildC17(c *CheckCtx) {
	c.Level = "other"
	c.Technique = "per-kind formatter contracts over symbolic traces of its 155 methods (E-TRACE): every token slot re-made or cleared, only token slots written, formatter lexemes equal the printer's canonical lexemes, possibly-absent children (from E-GRAM's non-terminal contracts) tested for nil"
	kinds := astKinds(c.W)
	c.checkFormatter(kinds)
	c.CoverageExtra["kinds"] = len(kinds)
	c.Explain = "Covers, for every node kind and every path of its formatter method: (canon) every token slot is assigned and ends as nil or as a token the formatter made in this call, so no parsed token with source trivia survives and the printed text of a formatted tree is a function of structure and leaf values (second sentence of C17); (frame) the method writes only token slots of its node and formatter state, so the node structure and values are those of the parsed tree (the structural half of the first sentence); (lexeme) formatter-made tokens carry the printer's canonical lexeme of their slot. (nil) a vertex slot that can be nil at the moment a grammar action embeds the node (E-GRAM non-terminal contracts, both grammars) is tested for nil before n.Slot.Accept(f) on every path, and formatList allocates only for a non-empty list. NOT decided: that the printed text parses without errors into the same tree and idempotence through print and re-parse; these need the parser in the loop and are not contracts on any formatter function."
	c.assume("the trace extractor (E-TRACE) is part of the trusted base; helpers newToken/newSemicolonTkn/formatList/formatStmts are pinned by exact-trace contracts")
}

func init() { propBuilders["C17"] = buildC17 }
