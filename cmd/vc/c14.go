package main

// C14, part 1: the per-kind table of the name resolver (E-TRACE).
//
// For every node kind the resolver method's trace is reduced to a set of items
//     ResolveName(<slot path>,"<alias kind>")   ResolveType(<slot path>)   AddNamespacedName(<decl path>)
// and compared with the table in the contract file, which is transcribed from the property
// statement (which constructs resolve which names, with which alias kind). Kinds not in the table
// must not touch the resolver at all. The few methods that switch the namespace context or add
// aliases are pinned by exact-trace contracts (`trace helper` lines).

import (
	"fmt"
	"regexp"
	"sort"
	"strings"
)

var reCast = regexp.MustCompile(`\.\(\*ast\.([A-Za-z0-9_]+)\)`)

func normResolverPath(s string) string {
	s = strings.TrimPrefix(s, "n.")
	s = strings.ReplaceAll(s, "[idx]", "[]")
	s = reCast.ReplaceAllString(s, "<$1>")
	return s
}

// resolverItems reduces events (recursively through loops) to item strings; other events are returned as errors
func resolverItems(evs []*TEvent, items map[string]bool, errs *[]string) {
	for _, ev := range evs {
		switch {
		case ev.Kind == "loop":
			for _, bp := range ev.Body {
				resolverItems(bp.Events, items, errs)
			}
		case ev.Kind == "call" && ev.Recv != nil && ev.Recv.S == "nsr" && ev.Callee == "ResolveName" && len(ev.Args) == 2:
			items[fmt.Sprintf("ResolveName(%s,%s)", normResolverPath(ev.Args[0].S), ev.Args[1].S)] = true
		case ev.Kind == "call" && ev.Recv != nil && ev.Recv.S == "nsr" && ev.Callee == "ResolveType" && len(ev.Args) == 1:
			items[fmt.Sprintf("ResolveType(%s)", normResolverPath(ev.Args[0].S))] = true
		case ev.Kind == "call" && ev.Recv != nil && ev.Recv.S == "nsr" && ev.Callee == "AddNamespacedName" && len(ev.Args) == 2:
			node := ev.Args[0].S
			want := "convert<string>(" + node + ".Name.(*ast.Identifier).Value)"
			if reCast.ReplaceAllString(strings.Replace(ev.Args[1].S, node, "@", 1), "") != reCast.ReplaceAllString(strings.Replace(want, node, "@", 1), "") {
				*errs = append(*errs, "AddNamespacedName("+node+", "+ev.Args[1].S+"): the declared name is not the node's own Name")
				continue
			}
			p := "@"
			if node != "n" {
				p = normResolverPath(node)
			}
			items["AddNamespacedName("+p+")"] = true
		default:
			*errs = append(*errs, "unexpected event "+ev.String())
		}
	}
}

func (c *CheckCtx) checkResolverTable(kinds []kindInfo) {
	pkg := modPath + "/pkg/visitor/nsresolver"
	f := loadFamily(c.W, pkg, "(*NamespaceResolver)")
	prefix := "pkg/visitor/nsresolver"
	c.checkHelpers(f, prefix)
	dirs := traceDirectives(c.W, pkg)
	want := map[string]map[string]bool{}
	for _, d := range dirs["resolves"] {
		i := strings.Index(d, ":=")
		if i < 0 {
			continue
		}
		k := strings.TrimSpace(d[:i])
		want[k] = map[string]bool{}
		for _, it := range strings.Fields(d[i+2:]) {
			want[k][it] = true
		}
	}
	pinned := map[string]bool{}
	for _, h := range dirs["helper"] {
		if i := strings.Index(h, ":="); i > 0 {
			pinned[strings.TrimSpace(h[:i])] = true
		}
	}
	seenWant := map[string]bool{}
	for ki := range kinds {
		k := &kinds[ki]
		name := fmt.Sprintf("%s.(*NamespaceResolver).%s", prefix, k.Name)
		fn := f.Methods[k.Name]
		if pinned[k.Name] {
			continue // pinned by an exact-trace contract
		}
		got := map[string]bool{}
		var errs []string
		site := ""
		if fn != nil {
			paths, err := f.trace(k.Name)
			if err != "" {
				c.addOb(name+"/trace/method", "trace", "", false, "cannot trace: "+err)
				continue
			}
			site = c.W.pos(fn.Pos())
			for _, p := range paths {
				resolverItems(p.Events, got, &errs)
			}
		}
		w := want[k.Name]
		seenWant[k.Name] = true
		var missing, extra []string
		for it := range w {
			if !got[it] {
				missing = append(missing, it)
			}
		}
		for it := range got {
			if !w[it] {
				extra = append(extra, it)
			}
		}
		sort.Strings(missing)
		sort.Strings(extra)
		sort.Strings(errs)
		why := ""
		if len(missing) > 0 {
			why += "the property requires " + strings.Join(missing, " ") + " but the resolver does not do it for this kind; "
		}
		if len(extra) > 0 {
			why += "the resolver does " + strings.Join(extra, " ") + " which the table does not list (nothing else may be put in the map); "
		}
		if len(errs) > 0 {
			why += strings.Join(errs, "; ")
		}
		c.addOb(name+"/trace/resolves-what-the-property-lists", "trace", site, why == "", why)
	}
	for k := range want {
		if !seenWant[k] {
			c.addOb(prefix+"/trace/table-kind-exists:"+k, "trace", "", false, "the table names a kind that does not exist")
		}
	}
}
