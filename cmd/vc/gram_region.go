package main

// E-GRAM, part 1: mechanical extraction of the semantic actions from the generated parser.
// Each action is the SSA region entered by the `yynt == k` test inside
// (*yyParserImpl).Parse and left through the common post-switch block. What the extraction
// drops is the LR driver around the action (DESIGN §2).

import (
	"fmt"
	"go/constant"
	"go/token"
	"go/types"
	"sort"
	"strings"

	"golang.org/x/tools/go/ssa"
)

type gramRegion struct {
	Rule  int
	Entry *ssa.BasicBlock
	From  *ssa.BasicBlock // the block holding the `yynt == k` test
}

type gramParser struct {
	W       *World
	Name    string // "php7" | "php5"
	Pkg     string
	Fn      *ssa.Function // (*yyParserImpl).Parse
	G       *yGrammar
	Regions map[int]*gramRegion
	Done    *ssa.BasicBlock // post-switch block
	YYS     ssa.Value       // the phi/value holding yyS inside the switch
	YYVAL   ssa.Value       // alloc of yyVAL
	YYLex   ssa.Value       // parameter yylex
	R1, R2  []int64         // yyR1, yyR2 as they stand in the .go file
	NTName  map[int64]string
	Explicit map[string]bool // list-typed symbols that are enumerated element by element (bounded)
	ExplicitGrew bool
	cbHelper map[*ssa.Function]bool
	ParserT *types.Named // *Parser of the package
	Problems []string
}

// intArrayInit reads the constant initialiser of a package-level [...]int variable from the
// package's init function (the tables as they stand in the generated file).
func intArrayInit(pkg *ssa.Package, name string) []int64 {
	g, ok := pkg.Members[name].(*ssa.Global)
	if !ok {
		return nil
	}
	at, ok := g.Type().(*types.Pointer).Elem().Underlying().(*types.Array)
	if !ok {
		return nil
	}
	out := make([]int64, at.Len())
	init := pkg.Func("init")
	if init == nil {
		return nil
	}
	for _, b := range init.Blocks {
		for _, in := range b.Instrs {
			st, ok := in.(*ssa.Store)
			if !ok {
				continue
			}
			ia, ok := st.Addr.(*ssa.IndexAddr)
			if !ok || ia.X != ssa.Value(g) {
				continue
			}
			ic, ok1 := ia.Index.(*ssa.Const)
			vc, ok2 := st.Val.(*ssa.Const)
			if !ok1 || !ok2 {
				continue
			}
			idx, _ := constant.Int64Val(constant.ToInt(ic.Value))
			v, _ := constant.Int64Val(constant.ToInt(vc.Value))
			if idx >= 0 && idx < int64(len(out)) {
				out[idx] = v
			}
		}
	}
	return out
}

func loadGramParser(w *World, name string) (*gramParser, error) {
	pkg := modPath + "/internal/" + name
	sp := w.SSAPkgs[pkg]
	if sp == nil {
		return nil, fmt.Errorf("package %s not loaded", pkg)
	}
	gp := &gramParser{W: w, Name: name, Pkg: pkg, Regions: map[int]*gramRegion{}, NTName: map[int64]string{}, Explicit: map[string]bool{}}
	gp.Fn = w.lookupFunc(pkg, "(*yyParserImpl).Parse")
	if gp.Fn == nil {
		return nil, fmt.Errorf("no (*yyParserImpl).Parse in %s", pkg)
	}
	p := w.PkgByPath[pkg]
	dir := ""
	for _, f := range p.GoFiles {
		if strings.HasSuffix(f, name+".go") {
			dir = f[:len(f)-len(name+".go")]
		}
	}
	g, err := parseYacc(dir + name + ".y")
	if err != nil {
		return nil, err
	}
	gp.G = g
	gp.R1 = intArrayInit(sp, "yyR1")
	gp.R2 = intArrayInit(sp, "yyR2")
	if tn, ok := sp.Members["Parser"].(*ssa.Type); ok {
		gp.ParserT, _ = tn.Type().(*types.Named)
	}
	gp.YYLex = gp.Fn.Params[1]
	// find the switch: blocks ending in `if yynt == const`
	type cmp struct {
		b *ssa.BasicBlock
		k int
		v ssa.Value
	}
	var cmps []cmp
	for _, b := range gp.Fn.Blocks {
		if len(b.Instrs) == 0 {
			continue
		}
		iff, ok := b.Instrs[len(b.Instrs)-1].(*ssa.If)
		if !ok {
			continue
		}
		bo, ok := iff.Cond.(*ssa.BinOp)
		if !ok || bo.Op != token.EQL {
			continue
		}
		c, ok := bo.Y.(*ssa.Const)
		if !ok || c.Value == nil || c.Value.Kind() != constant.Int {
			continue
		}
		if !strings.HasPrefix(b.Comment, "switch.") && !strings.Contains(b.Comment, "switch") {
			// the first test lives in the block that precedes the switch; accept it too
		}
		k, _ := constant.Int64Val(c.Value)
		cmps = append(cmps, cmp{b, int(k), bo.X})
	}
	// the switch variable is the one compared most often
	cnt := map[ssa.Value]int{}
	for _, c := range cmps {
		cnt[c.v]++
	}
	var sw ssa.Value
	for v, n := range cnt {
		if sw == nil || n > cnt[sw] {
			sw = v
		}
	}
	var last *ssa.BasicBlock
	for _, c := range cmps {
		if c.v != sw || c.k < 1 {
			continue
		}
		gp.Regions[c.k] = &gramRegion{Rule: c.k, Entry: c.b.Succs[0], From: c.b}
		if last == nil || c.b.Index > last.Index {
			last = c.b
		}
	}
	if last == nil {
		return nil, fmt.Errorf("no action switch found in %s", gp.Fn)
	}
	gp.Done = last.Succs[1]
	// yyVAL: the Alloc whose comment is yyVAL
	for _, b := range gp.Fn.Blocks {
		for _, in := range b.Instrs {
			if a, ok := in.(*ssa.Alloc); ok && a.Comment == "yyVAL" {
				gp.YYVAL = a
			}
		}
	}
	if gp.YYVAL == nil {
		return nil, fmt.Errorf("yyVAL is not an addressable local in %s", gp.Fn)
	}
	// cross-check the grammar file against the tables that actually run
	if len(gp.R2) != len(g.Rules)+1 {
		gp.Problems = append(gp.Problems, fmt.Sprintf("%s.y has %d rules, yyR2 has %d entries", name, len(g.Rules), len(gp.R2)-1))
	} else {
		lhsOf := map[int64]string{}
		for _, r := range g.Rules {
			if int64(len(r.RHS)) != gp.R2[r.Num] {
				gp.Problems = append(gp.Problems, fmt.Sprintf("rule %d (%s): %d symbols in %s.y, yyR2 says %d", r.Num, r, len(r.RHS), name, gp.R2[r.Num]))
			}
			if prev, ok := lhsOf[gp.R1[r.Num]]; ok && prev != r.LHS {
				gp.Problems = append(gp.Problems, fmt.Sprintf("rule %d: yyR1 groups %s with %s", r.Num, r.LHS, prev))
			}
			lhsOf[gp.R1[r.Num]] = r.LHS
		}
		gp.NTName = lhsOf
	}
	for k := range gp.Regions {
		if k < 1 || k > len(g.Rules) {
			gp.Problems = append(gp.Problems, fmt.Sprintf("action for rule %d which the grammar file does not have", k))
		}
	}
	for _, r := range g.Rules {
		if r.HasAct && gp.Regions[r.Num] == nil {
			gp.Problems = append(gp.Problems, fmt.Sprintf("rule %d (%s) has an action in %s.y but no case in the generated parser", r.Num, r, name))
		}
	}
	return gp, nil
}

func (gp *gramParser) ruleNums() []int {
	var ks []int
	for k := range gp.Regions {
		ks = append(ks, k)
	}
	sort.Ints(ks)
	return ks
}

// regionBlocks lists the blocks of a region (reachable from Entry without passing Done).
func (gp *gramParser) regionBlocks(r *gramRegion) []*ssa.BasicBlock {
	seen := map[*ssa.BasicBlock]bool{}
	var out []*ssa.BasicBlock
	var dfs func(b *ssa.BasicBlock)
	dfs = func(b *ssa.BasicBlock) {
		if seen[b] || b == gp.Done {
			return
		}
		seen[b] = true
		out = append(out, b)
		for _, s := range b.Succs {
			dfs(s)
		}
	}
	dfs(r.Entry)
	sort.Slice(out, func(i, j int) bool { return out[i].Index < out[j].Index })
	return out
}

func debugGramDump(name string, rules []string) int {
	w, err := loadWorld("./...")
	if err != nil {
		fmt.Println(err)
		return 2
	}
	gp, err := loadGramParser(w, name)
	if err != nil {
		fmt.Println(err)
		return 2
	}
	fmt.Printf("%s: %d rules in .y, %d action regions, done=b%d, problems=%v\n", name, len(gp.G.Rules), len(gp.Regions), gp.Done.Index, gp.Problems)
	for _, rs := range rules {
		var k int
		fmt.Sscan(rs, &k)
		r := gp.Regions[k]
		if r == nil {
			fmt.Println("no region for rule", k)
			continue
		}
		fmt.Printf("rule %d: %s  (%s:%d)\n", k, gp.G.Rules[k-1], name+".y", gp.G.Rules[k-1].Line)
		for _, b := range gp.regionBlocks(r) {
			fmt.Printf(" b%d: (%s) preds=%d\n", b.Index, b.Comment, len(b.Preds))
			for _, in := range b.Instrs {
				if v, ok := in.(ssa.Value); ok {
					fmt.Printf("    %s = %s   [%T]\n", v.Name(), in, in)
				} else {
					fmt.Printf("    %s   [%T]\n", in, in)
				}
			}
		}
	}
	return 0
}
