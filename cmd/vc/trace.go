package main

// E-TRACE: per-kind symbolic traces of the visitor families.
//
// A method is executed path by path over its SSA; values are symbolic access paths of the
// parameters (n.Stmts, n.Stmt.(*ast.StmtStmtList).Stmts, elem(n.Items), literals, pure helper
// applications); calls and stores become events; a `range` loop becomes one Loop event whose
// body is the trace of one iteration over the symbolic element (the body must not depend on
// earlier iterations: no loop-carried value other than the index is allowed).

import (
	"fmt"
	"go/constant"
	"go/token"
	"go/types"
	"sort"
	"strings"

	"golang.org/x/tools/go/ssa"
)

type SymE struct {
	Kind string // path | lit | nil | int | call | cond | len | idx | bool | opaque
	S    string // rendering
	Args []*SymE
	T    types.Type
	Base string // for path: root parameter name
}

func (e *SymE) String() string {
	if e == nil {
		return "<nil>"
	}
	return e.S
}

type TEvent struct {
	Kind   string // call | store | loop
	Callee string // short callee name, e.g. "printToken", "Accept", "Write"
	Recv   *SymE
	Args   []*SymE
	Body   []*TPath // loop body paths
	Over   []string // loop: slices indexed by the loop index
	Site   string
	Pos    token.Pos
	IsInvoke bool
}

type TCond struct {
	E   *SymE
	Val bool
}

type TPath struct {
	Conds  []TCond
	Events []*TEvent
	Ret    []*SymE
}

func (p *TPath) condString() string {
	var parts []string
	for _, c := range p.Conds {
		if c.Val {
			parts = append(parts, c.E.S)
		} else {
			parts = append(parts, "!("+c.E.S+")")
		}
	}
	return strings.Join(parts, " && ")
}

func renderEvents(evs []*TEvent) string {
	var parts []string
	for _, e := range evs {
		parts = append(parts, e.String())
	}
	return strings.Join(parts, "; ")
}

func (e *TEvent) String() string {
	switch e.Kind {
	case "loop":
		var bodies []string
		for _, b := range e.Body {
			s := renderEvents(b.Events)
			if c := b.condString(); c != "" {
				s = "[" + c + "] " + s
			}
			bodies = append(bodies, s)
		}
		return "loop(" + strings.Join(e.Over, ",") + "){" + strings.Join(bodies, " | ") + "}"
	case "store":
		return "store " + e.Args[0].S + " := " + e.Args[1].S
	}
	var as []string
	for _, a := range e.Args {
		as = append(as, a.S)
	}
	r := ""
	if e.Recv != nil {
		r = e.Recv.S + "."
	}
	return r + e.Callee + "(" + strings.Join(as, ", ") + ")"
}

type tracer struct {
	w       *World
	fn      *ssa.Function
	loops   map[*ssa.BasicBlock]*loopInfo
	paths   []*TPath
	pure    func(fn *ssa.Function) bool
	err     string
	maxPath int
}

type tstate struct {
	arrays map[ssa.Value]map[int64]*SymE // contents of local array literals (variadic arguments, slice literals)
	env    map[ssa.Value]*SymE
	conds  []TCond
	events []*TEvent
	inLoop *loopInfo
	idxPhi ssa.Value
}

func (s *tstate) clone() *tstate {
	e := make(map[ssa.Value]*SymE, len(s.env))
	for k, v := range s.env {
		e[k] = v
	}
	ar := make(map[ssa.Value]map[int64]*SymE, len(s.arrays))
	for k, v := range s.arrays {
		m := make(map[int64]*SymE, len(v))
		for i, e := range v {
			m[i] = e
		}
		ar[k] = m
	}
	return &tstate{env: e, arrays: ar, conds: append([]TCond{}, s.conds...), events: append([]*TEvent{}, s.events...), inLoop: s.inLoop, idxPhi: s.idxPhi}
}

// traceFunction enumerates the paths of fn.
func traceFunction(w *World, fn *ssa.Function, pure func(*ssa.Function) bool) ([]*TPath, error) {
	loops, err := findLoops(fn)
	if err != nil {
		return nil, err
	}
	t := &tracer{w: w, fn: fn, loops: loops, pure: pure, maxPath: 4096}
	st := &tstate{env: map[ssa.Value]*SymE{}}
	for _, p := range fn.Params {
		st.env[p] = &SymE{Kind: "path", S: p.Name(), T: p.Type(), Base: p.Name()}
	}
	var out []*TPath
	t.walk(fn.Blocks[0], nil, st, nil, &out)
	if t.err != "" {
		return nil, fmt.Errorf("%s", t.err)
	}
	return out, nil
}

// walk executes block b (entered from pred) and continues; stop != nil is the loop header at which
// a loop-body walk ends.
func (t *tracer) walk(b, pred *ssa.BasicBlock, st *tstate, stop *ssa.BasicBlock, out *[]*TPath) {
	if t.err != "" || len(*out) > t.maxPath {
		if len(*out) > t.maxPath {
			t.err = "too many paths"
		}
		return
	}
	if stop != nil && b == stop {
		// end of a loop body: record what the iteration hands to the next one (loop-carried values
		// other than the range index), so that accumulators are part of the trace
		evs := st.events
		for _, in := range b.Instrs {
			phi, ok := in.(*ssa.Phi)
			if !ok {
				break
			}
			if phi == st.idxPhi {
				continue
			}
			for i, p := range b.Preds {
				if p == pred {
					v := t.val(st, phi.Edges[i])
					name := phi.Comment
					if name == "" {
						name = phi.Name()
					}
					if v.S != "loopvar("+name+")" {
						evs = append(evs, &TEvent{Kind: "store", Args: []*SymE{{Kind: "path", S: "next(" + name + ")"}, v}})
					}
				}
			}
		}
		*out = append(*out, &TPath{Conds: st.conds, Events: evs})
		return
	}
	// loop header reached from outside: summarise the loop
	if li := t.loops[b]; li != nil && (st.inLoop == nil || st.inLoop != li) && (pred == nil || !li.body[pred]) {
		t.summariseLoop(li, pred, st, stop, out)
		return
	}
	// phis
	for _, in := range b.Instrs {
		phi, ok := in.(*ssa.Phi)
		if !ok {
			break
		}
		for i, p := range b.Preds {
			if p == pred {
				st.env[phi] = t.val(st, phi.Edges[i])
			}
		}
	}
	for _, in := range b.Instrs {
		if _, ok := in.(*ssa.Phi); ok {
			continue
		}
		switch i := in.(type) {
		case *ssa.If:
			c := t.val(st, i.Cond)
			if c.Kind == "bool" {
				if c.S == "true" {
					t.walk(b.Succs[0], b, st, stop, out)
				} else {
					t.walk(b.Succs[1], b, st, stop, out)
				}
				return
			}
			s1 := st.clone()
			s1.conds = append(s1.conds, TCond{c, true})
			t.walk(b.Succs[0], b, s1, stop, out)
			s2 := st
			s2.conds = append(s2.conds, TCond{c, false})
			t.walk(b.Succs[1], b, s2, stop, out)
			return
		case *ssa.Jump:
			t.walk(b.Succs[0], b, st, stop, out)
			return
		case *ssa.Return:
			p := &TPath{Conds: st.conds, Events: st.events}
			for _, r := range i.Results {
				p.Ret = append(p.Ret, t.val(st, r))
			}
			*out = append(*out, p)
			return
		case *ssa.Panic:
			st.events = append(st.events, &TEvent{Kind: "call", Callee: "panic", Pos: i.Pos(), Site: t.w.pos(i.Pos())})
			*out = append(*out, &TPath{Conds: st.conds, Events: st.events})
			return
		default:
			t.exec(st, in)
		}
	}
}

// summariseLoop handles `for ... range slice`: one Loop event with the body's paths.
func (t *tracer) summariseLoop(li *loopInfo, pred *ssa.BasicBlock, st *tstate, stop *ssa.BasicBlock, out *[]*TPath) {
	h := li.header
	// bind header phis: the index phi becomes the symbolic index; any other phi must be loop-invariant
	body := st.clone()
	body.events = nil
	body.conds = nil
	body.inLoop = li
	for _, in := range h.Instrs {
		phi, ok := in.(*ssa.Phi)
		if !ok {
			break
		}
		// the range index is the phi that the back edge increments by one; every other phi is a
		// loop-carried variable (an accumulator)
		isIdx := false
		for i, p := range h.Preds {
			if li.body[p] {
				if bo, ok := phi.Edges[i].(*ssa.BinOp); ok && bo.Op == token.ADD && bo.X == ssa.Value(phi) {
					if c, ok := bo.Y.(*ssa.Const); ok && c.Value != nil && c.Value.ExactString() == "1" {
						isIdx = true
					}
				}
			}
		}
		if isIdx || phi.Comment == "rangeindex" {
			body.env[phi] = &SymE{Kind: "idx", S: "idx-1", T: phi.Type()}
			body.idxPhi = phi
			continue
		}
		name := phi.Comment
		if name == "" {
			name = phi.Name()
		}
		body.env[phi] = &SymE{Kind: "path", S: "loopvar(" + name + ")", T: phi.Type(), Base: "loopvar"}
	}
	// execute header non-phi instructions, then follow into the body successor
	var bodySucc, exitSucc *ssa.BasicBlock
	for _, in := range h.Instrs {
		if _, ok := in.(*ssa.Phi); ok {
			continue
		}
		switch i := in.(type) {
		case *ssa.If:
			if li.body[h.Succs[0]] && !li.body[h.Succs[1]] {
				bodySucc, exitSucc = h.Succs[0], h.Succs[1]
			} else if li.body[h.Succs[1]] && !li.body[h.Succs[0]] {
				bodySucc, exitSucc = h.Succs[1], h.Succs[0]
			} else {
				t.err = "loop with unsupported shape in " + t.fn.String()
				return
			}
			_ = i
		default:
			t.exec(body, in)
		}
	}
	if bodySucc == nil {
		t.err = "loop header without conditional exit in " + t.fn.String()
		return
	}
	var bodyPaths []*TPath
	t.walk(bodySucc, h, body, h, &bodyPaths)
	if t.err != "" {
		return
	}
	over := map[string]bool{}
	var collect func(evs []*TEvent)
	collectE := func(e *SymE) {}
	var walkE func(e *SymE)
	walkE = func(e *SymE) {
		if e == nil {
			return
		}
		if e.Kind == "path" && strings.Contains(e.S, "[idx]") {
			over[e.S[:strings.Index(e.S, "[idx]")]] = true
		}
		for _, a := range e.Args {
			walkE(a)
		}
	}
	_ = collectE
	collect = func(evs []*TEvent) {
		for _, e := range evs {
			walkE(e.Recv)
			for _, a := range e.Args {
				walkE(a)
			}
			for _, bp := range e.Body {
				collect(bp.Events)
			}
		}
	}
	for _, bp := range bodyPaths {
		collect(bp.Events)
		for _, c := range bp.Conds {
			walkE(c.E)
		}
	}
	ev := &TEvent{Kind: "loop", Body: bodyPaths, Over: sortedKeys(over), Pos: h.Instrs[0].Pos(), Site: t.w.pos(h.Instrs[0].Pos())}
	st.events = append(st.events, ev)
	// continue after the loop; header values are not visible outside (checked: uses outside fail in val())
	st.inLoop = nil
	for _, in := range h.Instrs {
		if phi, ok := in.(*ssa.Phi); ok {
			nm := phi.Comment
			if nm == "" {
				nm = phi.Name()
			}
			st.env[phi] = &SymE{Kind: "opaque", S: "after-loop(" + nm + ")", T: phi.Type()}
		}
	}
	t.walk(exitSucc, h, st, stop, out)
}

func (t *tracer) val(st *tstate, v ssa.Value) *SymE {
	switch c := v.(type) {
	case *ssa.Const:
		if c.Value == nil {
			return &SymE{Kind: "nil", S: "nil", T: c.Type()}
		}
		switch c.Value.Kind() {
		case constant.Bool:
			return &SymE{Kind: "bool", S: fmt.Sprint(constant.BoolVal(c.Value)), T: c.Type()}
		case constant.String:
			return &SymE{Kind: "lit", S: fmt.Sprintf("%q", constant.StringVal(c.Value)), T: c.Type()}
		default:
			return &SymE{Kind: "int", S: c.Value.ExactString(), T: c.Type()}
		}
	case *ssa.Global:
		return &SymE{Kind: "path", S: "global:" + c.Name(), T: c.Type(), Base: "global"}
	case *ssa.Function:
		return &SymE{Kind: "opaque", S: "func:" + c.Name(), T: c.Type()}
	}
	if e, ok := st.env[v]; ok {
		return e
	}
	return &SymE{Kind: "opaque", S: "?" + v.Name(), T: v.Type()}
}

func shortType(t types.Type) string {
	s := types.TypeString(t, func(p *types.Package) string { return p.Name() })
	return s
}

func (t *tracer) exec(st *tstate, in ssa.Instruction) {
	switch i := in.(type) {
	case *ssa.DebugRef:
	case *ssa.FieldAddr:
		x := t.val(st, i.X)
		bt := i.X.Type().Underlying().(*types.Pointer).Elem()
		s, _ := isStruct(bt)
		st.env[i] = &SymE{Kind: "path", S: "&" + x.S + "." + s.Field(i.Field).Name(), T: i.Type(), Base: x.Base, Args: []*SymE{x}}
	case *ssa.Field:
		x := t.val(st, i.X)
		s, _ := isStruct(i.X.Type())
		st.env[i] = &SymE{Kind: "path", S: x.S + "." + s.Field(i.Field).Name(), T: i.Type(), Base: x.Base, Args: []*SymE{x}}
	case *ssa.IndexAddr:
		x := t.val(st, i.X)
		idx := t.val(st, i.Index)
		is := idx.S
		if is == "idx" {
			is = "idx"
		}
		st.env[i] = &SymE{Kind: "path", S: "&" + x.S + "[" + is + "]", T: i.Type(), Base: x.Base, Args: []*SymE{x, idx}}
	case *ssa.UnOp:
		x := t.val(st, i.X)
		switch i.Op {
		case token.MUL:
			if x.Base == "local" && len(x.Args) == 1 {
				st.env[i] = x.Args[0]
			} else if strings.HasPrefix(x.S, "&") {
				st.env[i] = &SymE{Kind: "path", S: x.S[1:], T: i.Type(), Base: x.Base, Args: x.Args}
			} else {
				st.env[i] = &SymE{Kind: "path", S: "*" + x.S, T: i.Type(), Base: x.Base, Args: []*SymE{x}}
			}
		case token.NOT:
			if x.Kind == "bool" {
				st.env[i] = &SymE{Kind: "bool", S: fmt.Sprint(x.S != "true"), T: i.Type()}
			} else {
				st.env[i] = &SymE{Kind: "cond", S: "!(" + x.S + ")", T: i.Type(), Args: []*SymE{x}}
			}
		default:
			st.env[i] = &SymE{Kind: "opaque", S: i.Op.String() + x.S, T: i.Type(), Args: []*SymE{x}}
		}
	case *ssa.BinOp:
		a, b := t.val(st, i.X), t.val(st, i.Y)
		if a.Kind == "idx" && b.Kind == "int" && i.Op == token.ADD && b.S == "1" && a.S == "idx-1" {
			st.env[i] = &SymE{Kind: "idx", S: "idx", T: i.Type()}
			return
		}
		kind := "opaque"
		switch i.Op {
		case token.EQL, token.NEQ, token.LSS, token.LEQ, token.GTR, token.GEQ:
			kind = "cond"
		}
		st.env[i] = &SymE{Kind: kind, S: "(" + a.S + " " + i.Op.String() + " " + b.S + ")", T: i.Type(), Args: []*SymE{a, b}}
	case *ssa.Convert:
		x := t.val(st, i.X)
		if x.Kind == "lit" {
			st.env[i] = &SymE{Kind: "lit", S: x.S, T: i.Type()}
		} else {
			st.env[i] = &SymE{Kind: "call", S: "convert<" + shortType(i.Type()) + ">(" + x.S + ")", T: i.Type(), Args: []*SymE{x}, Base: x.Base}
		}
	case *ssa.ChangeType, *ssa.ChangeInterface:
		var x ssa.Value
		if c, ok := i.(*ssa.ChangeType); ok {
			x = c.X
		} else {
			x = i.(*ssa.ChangeInterface).X
		}
		st.env[i.(ssa.Value)] = t.val(st, x)
	case *ssa.MakeInterface:
		st.env[i] = t.val(st, i.X)
	case *ssa.TypeAssert:
		x := t.val(st, i.X)
		ty := shortType(i.AssertedType)
		if i.CommaOk {
			st.env[i] = &SymE{Kind: "opaque", S: "assert2(" + x.S + "," + ty + ")", T: i.Type(), Args: []*SymE{x}, Base: x.Base}
		} else {
			st.env[i] = &SymE{Kind: "path", S: x.S + ".(" + ty + ")", T: i.Type(), Base: x.Base, Args: []*SymE{x}}
		}
	case *ssa.Extract:
		tup := t.val(st, i.Tuple)
		if strings.HasPrefix(tup.S, "assert2(") {
			inner := tup.S[len("assert2(") : len(tup.S)-1]
			k := strings.LastIndex(inner, ",")
			if i.Index == 0 {
				st.env[i] = &SymE{Kind: "path", S: inner[:k] + ".(" + inner[k+1:] + ")", T: i.Type(), Base: tup.Base, Args: tup.Args}
			} else {
				st.env[i] = &SymE{Kind: "cond", S: "is(" + inner[:k] + "," + inner[k+1:] + ")", T: i.Type(), Args: tup.Args}
			}
			return
		}
		st.env[i] = &SymE{Kind: "opaque", S: fmt.Sprintf("%s#%d", tup.S, i.Index), T: i.Type(), Args: []*SymE{tup}, Base: tup.Base}
	case *ssa.Slice:
		if al, ok := i.X.(*ssa.Alloc); ok && i.Low == nil && i.High == nil {
			if at, ok := al.Type().(*types.Pointer).Elem().Underlying().(*types.Array); ok {
				// a slice literal / variadic argument list: render its elements
				var parts []string
				var args []*SymE
				for k := int64(0); k < at.Len(); k++ {
					e := st.arrays[al][k]
					if e == nil {
						e = &SymE{Kind: "nil", S: "zero"}
					}
					parts = append(parts, e.S)
					args = append(args, e)
				}
				st.env[i] = &SymE{Kind: "call", S: "[" + strings.Join(parts, ", ") + "]", T: i.Type(), Args: args}
				return
			}
		}
		x := t.val(st, i.X)
		s := x.S + "["
		if i.Low != nil {
			s += t.val(st, i.Low).S
		}
		s += ":"
		if i.High != nil {
			s += t.val(st, i.High).S
		}
		s += "]"
		st.env[i] = &SymE{Kind: "opaque", S: s, T: i.Type(), Args: []*SymE{x}, Base: x.Base}
	case *ssa.Alloc:
		st.env[i] = &SymE{Kind: "path", S: "&local:" + i.Name(), T: i.Type(), Base: "local"}
	case *ssa.MakeSlice, *ssa.MakeMap:
		st.env[i.(ssa.Value)] = &SymE{Kind: "opaque", S: "make:" + i.(ssa.Value).Name(), T: i.(ssa.Value).Type()}
	case *ssa.Lookup:
		x, k := t.val(st, i.X), t.val(st, i.Index)
		st.env[i] = &SymE{Kind: "path", S: x.S + "[" + k.S + "]", T: i.Type(), Base: x.Base, Args: []*SymE{x, k}}
	case *ssa.Store:
		a, v := t.val(st, i.Addr), t.val(st, i.Val)
		if ia, ok := i.Addr.(*ssa.IndexAddr); ok {
			if al, ok := ia.X.(*ssa.Alloc); ok {
				if c, ok := ia.Index.(*ssa.Const); ok && c.Value != nil {
					if st.arrays == nil {
						st.arrays = map[ssa.Value]map[int64]*SymE{}
					}
					if st.arrays[al] == nil {
						st.arrays[al] = map[int64]*SymE{}
					}
					k, _ := constant.Int64Val(constant.ToInt(c.Value))
					st.arrays[al][k] = v
					return
				}
			}
		}
		if a.Base == "local" {
			// local cell: remember its content
			st.env[i.Addr] = &SymE{Kind: "path", S: a.S, T: a.T, Base: "local", Args: []*SymE{v}}
			return
		}
		st.events = append(st.events, &TEvent{Kind: "store", Args: []*SymE{a, v}, Pos: i.Pos(), Site: t.w.pos(i.Pos())})
	case *ssa.MapUpdate:
		m, k, v := t.val(st, i.Map), t.val(st, i.Key), t.val(st, i.Value)
		st.events = append(st.events, &TEvent{Kind: "call", Callee: "mapupdate", Args: []*SymE{m, k, v}, Pos: i.Pos(), Site: t.w.pos(i.Pos())})
	case *ssa.Call:
		t.execCall(st, i)
	case *ssa.Defer:
		cc := i.Common()
		name := "defer"
		if fn := cc.StaticCallee(); fn != nil {
			name = "defer " + fn.Name()
		}
		var args []*SymE
		for _, a := range cc.Args {
			args = append(args, t.val(st, a))
		}
		st.events = append(st.events, &TEvent{Kind: "call", Callee: name, Args: args, Pos: i.Pos(), Site: t.w.pos(i.Pos())})
	case *ssa.RunDefers:
	case *ssa.MakeClosure:
		st.env[i] = &SymE{Kind: "opaque", S: "closure:" + i.Fn.Name(), T: i.Type()}
	case *ssa.Range, *ssa.Next:
		t.err = "range over map or string in " + t.fn.String()
	default:
		if v, ok := in.(ssa.Value); ok {
			st.env[v] = &SymE{Kind: "opaque", S: "?" + v.Name(), T: v.Type()}
		}
	}
}

func (t *tracer) execCall(st *tstate, i *ssa.Call) {
	cc := i.Common()
	var args []*SymE
	for _, a := range cc.Args {
		args = append(args, t.val(st, a))
	}
	if bi, ok := cc.Value.(*ssa.Builtin); ok {
		var as []string
		for _, a := range args {
			as = append(as, a.S)
		}
		kind := "call"
		if bi.Name() == "len" {
			kind = "len"
		}
		st.env[i] = &SymE{Kind: kind, S: bi.Name() + "(" + strings.Join(as, ", ") + ")", T: i.Type(), Args: args}
		if bi.Name() == "append" || bi.Name() == "copy" || bi.Name() == "delete" {
			st.events = append(st.events, &TEvent{Kind: "call", Callee: bi.Name(), Args: args, Pos: i.Pos(), Site: t.w.pos(i.Pos())})
		}
		return
	}
	ev := &TEvent{Kind: "call", Pos: i.Pos(), Site: t.w.pos(i.Pos())}
	if cc.IsInvoke() {
		ev.Callee = cc.Method.Name()
		ev.Recv = t.val(st, cc.Value)
		ev.Args = args
		ev.IsInvoke = true
	} else if fn := cc.StaticCallee(); fn != nil {
		ev.Callee = fn.Name()
		if fn.Signature.Recv() != nil && len(args) > 0 {
			ev.Recv = args[0]
			ev.Args = args[1:]
		} else {
			ev.Args = args
			if fn.Pkg != nil && fn.Pkg.Pkg.Path() != funcPkgPath(t.fn) {
				ev.Callee = fn.Pkg.Pkg.Name() + "." + fn.Name()
			}
		}
		if t.pure != nil && t.pure(fn) {
			var as []string
			for _, a := range ev.Args {
				as = append(as, a.S)
			}
			base := ""
			for _, a := range ev.Args {
				if a.Base != "" {
					base = a.Base
				}
			}
			st.env[i] = &SymE{Kind: "call", S: ev.Callee + "(" + strings.Join(as, ", ") + ")", T: i.Type(), Args: ev.Args, Base: base}
			return
		}
	} else {
		ev.Callee = "dyncall"
		ev.Recv = t.val(st, cc.Value)
		ev.Args = args
	}
	st.events = append(st.events, ev)
	if i.Type() != nil {
		if tup, ok := i.Type().(*types.Tuple); !ok || tup.Len() > 0 {
			st.env[i] = &SymE{Kind: "opaque", S: "result(" + ev.String() + ")", T: i.Type(), Args: args}
		}
	}
}

// ---------------------------------------------------------------------------
// node kinds and slots (from go/types of pkg/ast/node.go)

type slotInfo struct {
	Name  string
	Class string // token | tokens | vertex | vertices | position | value | other
	Type  types.Type
	Index int
}

type kindInfo struct {
	Name  string
	Named *types.Named
	Slots []slotInfo
}

func classifySlot(t types.Type) string {
	s := shortType(t)
	switch s {
	case "*token.Token":
		return "token"
	case "[]*token.Token":
		return "tokens"
	case "ast.Vertex":
		return "vertex"
	case "[]ast.Vertex":
		return "vertices"
	case "*position.Position":
		return "position"
	case "[]byte":
		return "value"
	}
	return "other"
}

// astKinds lists the node kinds: the parameter types of the methods of ast.Visitor.
func astKinds(w *World) []kindInfo {
	vi := visitorIface(w)
	var out []kindInfo
	for i := 0; i < vi.NumMethods(); i++ {
		m := vi.Method(i)
		sig := m.Type().(*types.Signature)
		if sig.Params().Len() != 1 {
			continue
		}
		pt, ok := sig.Params().At(0).Type().(*types.Pointer)
		if !ok {
			continue
		}
		named, ok := pt.Elem().(*types.Named)
		if !ok {
			continue
		}
		st, ok := isStruct(named)
		if !ok {
			continue
		}
		ki := kindInfo{Name: m.Name(), Named: named}
		for f := 0; f < st.NumFields(); f++ {
			ki.Slots = append(ki.Slots, slotInfo{Name: st.Field(f).Name(), Class: classifySlot(st.Field(f).Type()), Type: st.Field(f).Type(), Index: f})
		}
		out = append(out, ki)
	}
	sort.Slice(out, func(i, j int) bool { return out[i].Name < out[j].Name })
	return out
}

func (k *kindInfo) slot(name string) *slotInfo {
	for i := range k.Slots {
		if k.Slots[i].Name == name {
			return &k.Slots[i]
		}
	}
	return nil
}
