/-
  The three list laws of DESIGN.md Appendix B, machine-checked (Lean 4 core, no Mathlib).

  `IL Y tok xs ss` is the token-yield of `printSeparatedList(xs, ss, d)` with default lexemes dropped:
  element k contributes its yield `Y xs[k]`, followed by the separator `tok ss[k]` when there is one
  (separators with an index >= |xs| are never printed). `PL Y xs` is the yield of a plain list.
  E-GRAM relies on exactly B1-B3 when it compares the printed yield of a list that an action extends with
  the concatenation of the yields of the right-hand side.
-/
variable {α σ τ : Type}

def IL (Y : α → List τ) (tok : σ → List τ) : List α → List σ → List τ
  | [], _ => []
  | x :: xs, [] => Y x ++ IL Y tok xs []
  | x :: xs, s :: ss => Y x ++ tok s ++ IL Y tok xs ss

def PL (Y : α → List τ) : List α → List τ
  | [] => []
  | x :: xs => Y x ++ PL Y xs

theorem IL_nil_seps (Y : α → List τ) (tok : σ → List τ) (xs : List α) :
    IL Y tok xs [] = PL Y xs := by
  induction xs with
  | nil => rfl
  | cons x xs ih => simp [IL, PL, ih]

/-- (B1) -/
theorem B1_single (Y : α → List τ) (tok : σ → List τ) (x : α) : IL Y tok [x] [] = Y x := by
  simp [IL]

theorem B1_empty (Y : α → List τ) (tok : σ → List τ) : IL Y tok ([] : List α) ([] : List σ) = [] := rfl

theorem B1_append (Y : α → List τ) (xs : List α) (x : α) : PL Y (xs ++ [x]) = PL Y xs ++ Y x := by
  induction xs with
  | nil => simp [PL]
  | cons y ys ih => simp [PL, ih, List.append_assoc]

/-- (B2) appending an element together with its separator: |ss| + 1 = |xs| -/
theorem B2 (Y : α → List τ) (tok : σ → List τ) :
    ∀ (xs : List α) (ss : List σ) (x : α) (s : σ), ss.length + 1 = xs.length →
      IL Y tok (xs ++ [x]) (ss ++ [s]) = IL Y tok xs ss ++ tok s ++ Y x := by
  intro xs
  induction xs with
  | nil => intro ss x s h; simp at h
  | cons y ys ih =>
    intro ss x s h
    cases ss with
    | nil =>
      -- ys must be empty
      have : ys = [] := by
        cases ys with
        | nil => rfl
        | cons _ _ => simp at h
      subst this
      simp [IL]
    | cons t ts =>
      have h' : ts.length + 1 = ys.length := by simpa using h
      simp [IL, ih ts x s h', List.append_assoc]

/-- (B3) a trailing separator: |ss| + 1 = |xs| -/
theorem B3 (Y : α → List τ) (tok : σ → List τ) :
    ∀ (xs : List α) (ss : List σ) (s : σ), ss.length + 1 = xs.length →
      IL Y tok xs (ss ++ [s]) = IL Y tok xs ss ++ tok s := by
  intro xs
  induction xs with
  | nil => intro ss s h; simp at h
  | cons y ys ih =>
    intro ss s h
    cases ss with
    | nil =>
      have : ys = [] := by
        cases ys with
        | nil => rfl
        | cons _ _ => simp at h
      subst this
      simp [IL]
    | cons t ts =>
      have h' : ts.length + 1 = ys.length := by simpa using h
      simp [IL, ih ts s h', List.append_assoc]
