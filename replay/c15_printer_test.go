package printer_test

// Replay harness for C15 (injected by overlay). For every node kind (all methods of ast.Visitor)
// a node is built by reflection with a unique marker in every token, separator and child slot;
// the real printer prints it; each marker must occur exactly once and in declared field order.
// Then every single token slot is set to nil in turn: the remaining markers must stay in place.

import (
	"bytes"
	"fmt"
	"reflect"
	"strings"
	"testing"

	"github.com/z7zmey/php-parser/pkg/ast"
	"github.com/z7zmey/php-parser/pkg/token"
	"github.com/z7zmey/php-parser/pkg/visitor/printer"
)

var (
	vcTokT  = reflect.TypeOf((*token.Token)(nil))
	vcToksT = reflect.TypeOf([]*token.Token(nil))
	vcVerT  = reflect.TypeOf((*ast.Vertex)(nil)).Elem()
	vcVersT = reflect.TypeOf([]ast.Vertex(nil))
)

func vcKinds() []reflect.Type {
	vt := reflect.TypeOf((*ast.Visitor)(nil)).Elem()
	var out []reflect.Type
	for i := 0; i < vt.NumMethod(); i++ {
		m := vt.Method(i)
		if m.Type.NumIn() == 1 && m.Type.In(0).Kind() == reflect.Ptr {
			out = append(out, m.Type.In(0).Elem())
		}
	}
	return out
}

func vcLeaf(mark string) ast.Vertex {
	return &ast.Identifier{Value: []byte(mark), IdentifierTkn: &token.Token{Value: []byte(mark)}}
}

// build returns the node and the markers in field order.
func vcBuild(t reflect.Type, skipTok string) (ast.Vertex, []string) {
	n := reflect.New(t)
	var marks []string
	k := 0
	mk := func(name string) string {
		k++
		m := fmt.Sprintf("\x01%s%d\x02", name, k)
		marks = append(marks, m)
		return m
	}
	for i := 0; i < t.NumField(); i++ {
		f := t.Field(i)
		fv := n.Elem().Field(i)
		switch {
		case f.Type == vcTokT:
			if f.Name == skipTok {
				continue
			}
			fv.Set(reflect.ValueOf(&token.Token{Value: []byte(mk(f.Name))}))
		case f.Type == vcToksT:
			fv.Set(reflect.ValueOf([]*token.Token{{Value: []byte(mk(f.Name))}}))
		case f.Type == vcVerT:
			fv.Set(reflect.ValueOf(vcLeaf(mk(f.Name))))
		case f.Type == vcVersT:
			// three items and (below) one separator token: the first gap holds the token, the
			// second gap must fall back to the default separator
			a := mk(f.Name)
			fv.Set(reflect.ValueOf([]ast.Vertex{vcLeaf(a), vcLeaf("\x03" + f.Name + "b\x04"), vcLeaf("\x03" + f.Name + "c\x04")}))
		case f.Name == "Value" && f.Type.Kind() == reflect.Slice:
			fv.SetBytes([]byte("v"))
		}
	}
	return n.Interface().(ast.Vertex), marks
}

func vcPrint(n ast.Vertex) (out string, panicked interface{}) {
	defer func() { panicked = recover() }()
	var buf bytes.Buffer
	n.Accept(printer.NewPrinter(&buf).WithState(printer.PrinterStatePHP))
	return buf.String(), nil
}

func vcCheck(kind, variant, out string, marks []string) {
	pos := -1
	for _, m := range marks {
		c := strings.Count(out, m)
		if c != 1 {
			fmt.Printf("REPRO: printer kind=%s %s: slot marker %q printed %d times; output %q\n", kind, variant, m, c, out)
			return
		}
		p := strings.Index(out, m)
		if p < pos {
			fmt.Printf("REPRO: printer kind=%s %s: slot marker %q printed out of field order; output %q\n", kind, variant, m, out)
			return
		}
		pos = p
	}
}

// gap returns the text printed between the second and third item of list slot name.
func vcGap(out, name string) (string, bool) {
	b, c := "\x03"+name+"b\x04", "\x03"+name+"c\x04"
	i, j := strings.Index(out, b), strings.Index(out, c)
	if i < 0 || j < 0 || j < i {
		return "", false
	}
	return out[i+len(b) : j], true
}

func TestVCReplayC15(t *testing.T) {
	for _, kt := range vcKinds() {
		n, marks := vcBuild(kt, "")
		// default separators: a list that has separator tokens for its first gap only must print
		// its second gap exactly as the same list without any separator tokens does
		for i := 0; i < kt.NumField(); i++ {
			if kt.Field(i).Type != vcToksT {
				continue
			}
			n0, _ := vcBuild(kt, "")
			reflect.ValueOf(n0).Elem().Field(i).Set(reflect.Zero(vcToksT))
			o1, p1 := vcPrint(n)
			o0, p0 := vcPrint(n0)
			if p1 != nil || p0 != nil {
				continue
			}
			for j := 0; j < kt.NumField(); j++ {
				if kt.Field(j).Type != vcVersT {
					continue
				}
				g1, ok1 := vcGap(o1, kt.Field(j).Name)
				g0, ok0 := vcGap(o0, kt.Field(j).Name)
				if ok1 && ok0 && g1 != g0 {
					fmt.Printf("REPRO: printer kind=%s list %s with one separator token of two: second gap prints %q, without separator tokens it prints %q\n", kt.Name(), kt.Field(j).Name, g1, g0)
				}
			}
		}
		out, p := vcPrint(n)
		if p != nil {
			fmt.Printf("REPRO: printer kind=%s all slots present: panic %v\n", kt.Name(), p)
			continue
		}
		vcCheck(kt.Name(), "all slots present", out, marks)
		for i := 0; i < kt.NumField(); i++ {
			if kt.Field(i).Type != vcTokT {
				continue
			}
			n2, marks2 := vcBuild(kt, kt.Field(i).Name)
			out2, p2 := vcPrint(n2)
			if p2 != nil {
				fmt.Printf("REPRO: printer kind=%s token %s absent: panic %v\n", kt.Name(), kt.Field(i).Name, p2)
				continue
			}
			vcCheck(kt.Name(), "token "+kt.Field(i).Name+" absent", out2, marks2)
		}
	}
}
