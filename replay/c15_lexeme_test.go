package scanner

// Ground evaluation for C15's default-lexeme obligation: the REAL lexer tokenises each literal the
// printer uses as a default (`<?php ` + literal + ` `) and reports the first token it produces.
// Input: VC_LEXEMES = Go-quoted strings separated by \x1f. Output lines: LEX <quoted> <terminal>.

import (
	"fmt"
	"os"
	"strconv"
	"strings"
	"testing"

	"github.com/z7zmey/php-parser/pkg/conf"
	"github.com/z7zmey/php-parser/pkg/version"
)

func TestVCLexemes(t *testing.T) {
	for _, q := range strings.Split(os.Getenv("VC_LEXEMES"), "\x1f") {
		if q == "" {
			continue
		}
		lit, err := strconv.Unquote(q)
		if err != nil {
			continue
		}
		func() {
			defer func() {
				if r := recover(); r != nil {
					fmt.Printf("LEX %s PANIC\n", q)
				}
			}()
			lex := NewLexer([]byte("<?php "+lit+" "), conf.Config{Version: &version.Version{Major: 7, Minor: 4}})
			tk := lex.Lex()
			name := tk.ID.String()
			if tk.ID > 0 && tk.ID < 256 {
				name = "'" + string(rune(tk.ID)) + "'"
			}
			full := "full"
			if string(tk.Value) != lit {
				full = "partial:" + strconv.Quote(string(tk.Value))
			}
			fmt.Printf("LEX %s %s %s\n", q, name, full)
		}()
	}
}
