package scanner

// Bounded stand-in / replay aid for C04: the REAL lexer is run on every byte string of a bounded
// family and every token and free-floating token it produces is checked against the source:
//
//   inputs   = prefix · w,  prefix from a fixed list of scanner-mode-setting prefixes,
//              w over a fixed alphabet with |w| <= VC_BOUND (default 2)
//   versions = one per class {5.x/7.0-7.2, 7.3-7.4}
//   checks   = Value == src[StartPos:EndPos]; offsets in range and increasing without overlap
//              (free-floating tokens before their token); 1-based lines where LF, CRLF and a lone
//              CR each end a line; when no lexer error was reported the tokens cover the whole
//              source without a gap
//
// Labelled `bounded` in the evidence; never counted as proved.

import (
	"bytes"
	"fmt"
	"os"
	"strconv"
	"strings"
	"testing"
	"time"

	"github.com/z7zmey/php-parser/pkg/conf"
	"github.com/z7zmey/php-parser/pkg/errors"
	"github.com/z7zmey/php-parser/pkg/position"
	"github.com/z7zmey/php-parser/pkg/token"
	"github.com/z7zmey/php-parser/pkg/version"
)

var vct4Prefixes = []string{"", "<?php", "<?php ", "<?", "<?=", "<?php \"", "<?php `", "<?php <<<A\n", "<?php <<<'A'\n", "<?php <<<A\nx\n", "<?php $a->", "<?php /*", "<?php //", "<?php #", "<?php '", "<?php \"{$a[", "<?php \"$a[", "<?php __halt_compiler();", "<?php \"${", "<?php 0", "x", "#!x\n"}
var vct4Alphabet = []byte{'a', '1', '$', '{', '}', '"', '\'', '`', '\\', '<', '?', '>', '\n', '\r', ' ', '\t', ';', '-', 'A', '[', ']', '/', '*', '#', 0x00, 0x80, '.', 'x', 'b', '_'}

func vct4LineOf(src []byte, off int) int {
	line := 1
	for i := 0; i < off && i < len(src); i++ {
		if src[i] == '\n' || (src[i] == '\r' && (i+1 >= len(src) || src[i+1] != '\n')) {
			line++
		}
	}
	return line
}

type vct4Out struct {
	toks  []*token.Token // in emission order, free-floating tokens flattened before their token
	errs  int
	kind  string
	info  string
}

func vct4Run(src []byte, v *version.Version, watchdog time.Duration) vct4Out {
	done := make(chan vct4Out, 1)
	go func() {
		var out vct4Out
		defer func() {
			if r := recover(); r != nil {
				out.kind, out.info = "panic", fmt.Sprint(r)
			}
			done <- out
		}()
		lex := NewLexer(src, conf.Config{Version: v, ErrorHandlerFunc: func(e *errors.Error) { out.errs++ }})
		for n := 0; n < 4*len(src)+16; n++ {
			t := lex.Lex()
			for _, ff := range t.FreeFloating {
				out.toks = append(out.toks, ff)
			}
			out.toks = append(out.toks, t)
			if t.ID <= 0 {
				return
			}
		}
		out.kind, out.info = "hang", "more tokens than 4*len+16"
	}()
	select {
	case o := <-done:
		return o
	case <-time.After(watchdog):
		return vct4Out{kind: "hang", info: "no result after " + watchdog.String()}
	}
}

func TestVCBoundedC04(t *testing.T) {
	bound := 2
	if b, err := strconv.Atoi(os.Getenv("VC_BOUND")); err == nil && b >= 0 {
		bound = b
	}
	versions := []*version.Version{{Major: 7, Minor: 2}, {Major: 7, Minor: 4}}
	vnames := []string{"7.2", "7.4"}
	cases, failed, other, skippedKnown := 0, 0, 0, 0
	report := func(kind, vn string, src []byte, detail string) {
		failed++
		if failed <= 300 {
			fmt.Printf("BFAIL kind=%s version=%s cb=true input=%q :: %s\n", kind, vn, string(src), detail)
		}
	}
	var words [][]byte
	var gen func(prefix []byte, n int)
	gen = func(prefix []byte, n int) {
		words = append(words, append([]byte{}, prefix...))
		if n == 0 {
			return
		}
		for _, c := range vct4Alphabet {
			gen(append(prefix, c), n-1)
		}
	}
	gen(nil, bound)
	hangs := 0
	for _, pf := range vct4Prefixes {
		for _, w := range words {
			src := append([]byte(pf), w...)
			for vi, v := range versions {
				// the known endless loop of C01 (a '$' inside a heredoc body that does not start a variable)
				// leaks a spinning goroutine per instance: that family is skipped here and counted
				if strings.HasPrefix(pf, "<?php <<<A\n") && bytes.IndexByte(w, '$') >= 0 {
					skippedKnown++
					continue
				}
				if hangs >= 12 {
					other++
					continue
				}
				cases++
				o := vct4Run(src, v, 400*time.Millisecond)
				if o.kind != "" {
					// crashes and hangs belong to C01's stand-in; they are counted, not reported here
					other++
					if o.kind == "hang" {
						hangs++
					}
					continue
				}
				pos := 0
				for k, tk := range o.toks {
					last := k == len(o.toks)-1
					var p *position.Position = tk.Position
					if p == nil {
						if last || len(tk.Value) == 0 {
							continue // the end token has no position of its own
						}
						report("token-no-position", vnames[vi], src, fmt.Sprintf("token #%d %q has no position", k, tk.Value))
						continue
					}
					if p.StartPos < 0 || p.EndPos < p.StartPos || p.EndPos > len(src) {
						report("token-range", vnames[vi], src, fmt.Sprintf("token #%d %q: offsets %d..%d out of range", k, tk.Value, p.StartPos, p.EndPos))
						continue
					}
					if !bytes.Equal(tk.Value, src[p.StartPos:p.EndPos]) {
						report("token-text", vnames[vi], src, fmt.Sprintf("token #%d: Value %q but source[%d:%d] is %q", k, tk.Value, p.StartPos, p.EndPos, src[p.StartPos:p.EndPos]))
					}
					if p.StartPos < pos {
						report("token-overlap", vnames[vi], src, fmt.Sprintf("token #%d %q starts at %d before the end %d of the previous token", k, tk.Value, p.StartPos, pos))
					} else if p.StartPos > pos && o.errs == 0 {
						report("token-gap", vnames[vi], src, fmt.Sprintf("gap %d..%d before token #%d %q (no lexer error was reported)", pos, p.StartPos, k, tk.Value))
					}
					if p.EndPos > pos {
						pos = p.EndPos
					}
					if p.StartLine != vct4LineOf(src, p.StartPos) {
						report("token-line", vnames[vi], src, fmt.Sprintf("token #%d %q: StartLine %d but offset %d is on line %d", k, tk.Value, p.StartLine, p.StartPos, vct4LineOf(src, p.StartPos)))
					}
					if p.EndPos > p.StartPos && p.EndLine != vct4LineOf(src, p.EndPos-1) {
						report("token-line", vnames[vi], src, fmt.Sprintf("token #%d %q: EndLine %d but offset %d is on line %d", k, tk.Value, p.EndLine, p.EndPos-1, vct4LineOf(src, p.EndPos-1)))
					}
				}
				if o.errs == 0 && pos != len(src) {
					report("token-gap", vnames[vi], src, fmt.Sprintf("tokens end at %d, source has %d bytes (no lexer error was reported)", pos, len(src)))
				}
			}
		}
	}
	_ = strings.TrimSpace
	fmt.Printf("BOUNDED name=lexer-tokens-exhaustive bound=%d prefixes=%d alphabet=%d cases=%d failed=%d crashed_or_hung_left_to_C01=%d skipped_known_hang_family=%d\n", bound, len(vct4Prefixes), len(vct4Alphabet), cases, failed, other, skippedKnown)
}
