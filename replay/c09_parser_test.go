package parser

// Replay harness for C09 (injected by overlay). Sweeps (major, minor) pairs around every
// boundary plus values from the solver model through the real version/parser code and
// checks the statements of C09 that are observable on one run.

import (
	"encoding/json"
	"fmt"
	"os"
	"strconv"
	"testing"

	"github.com/z7zmey/php-parser/pkg/conf"
	"github.com/z7zmey/php-parser/pkg/errors"
	"github.com/z7zmey/php-parser/pkg/version"
	"github.com/z7zmey/php-parser/pkg/visitor/dumper"
	"bytes"
)

func vcSupported(ma, mi uint64) bool {
	return (ma == 5 && mi <= 6) || (ma == 7 && mi <= 4)
}

func vcDump(src string, v *version.Version) string {
	var errs []string
	cfg := conf.Config{Version: v, ErrorHandlerFunc: func(e *errors.Error) { errs = append(errs, e.String()) }}
	root, err := Parse([]byte(src), cfg)
	var buf bytes.Buffer
	if root != nil {
		dumper.NewDumper(&buf).WithTokens().WithPositions().Dump(root)
	}
	return fmt.Sprintf("%v|%v|%s", err, errs, buf.String())
}

func TestVCReplayC09(t *testing.T) {
	vals := []uint64{0, 1, 2, 3, 4, 5, 6, 7, 8, 9, 10, 99, 100, 104, 106, 200, 1 << 31, 1 << 32, 1<<63 - 1, 1 << 63, 1<<64 - 1}
	var m map[string]string
	json.Unmarshal([]byte(os.Getenv("VC_MODEL")), &m)
	for _, v := range m {
		if n, err := strconv.ParseUint(v, 10, 64); err == nil {
			vals = append(vals, n)
		}
	}
	for _, ma := range vals {
		for _, mi := range vals {
			v := &version.Version{Major: ma, Minor: mi}
			want := vcSupported(ma, mi)
			if got := v.Validate() == nil; got != want {
				fmt.Printf("REPRO: Version{%d,%d}.Validate()==nil is %v, want %v\n", ma, mi, got, want)
			}
			func() {
				defer func() {
					if r := recover(); r != nil {
						fmt.Printf("REPRO: parser.Parse panics for Version{%d,%d}: %v\n", ma, mi, r)
					}
				}()
				root, err := Parse([]byte("<?php echo 1;"), conf.Config{Version: v})
				if want && (err != nil || root == nil) {
					fmt.Printf("REPRO: parser.Parse rejects supported Version{%d,%d}: %v\n", ma, mi, err)
				}
				if !want && (err != ErrVersionOutOfRange || root != nil) {
					fmt.Printf("REPRO: parser.Parse accepts unsupported Version{%d,%d} (err=%v)\n", ma, mi, err)
				}
			}()
			for _, mb := range vals {
				o := &version.Version{Major: mb, Minor: mi}
				c := v.Compare(o)
				w := 0
				if ma < mb {
					w = -1
				} else if ma > mb {
					w = 1
				}
				if c != w {
					fmt.Printf("REPRO: Version{%d,%d}.Compare(Version{%d,%d}) = %d, want %d\n", ma, mi, mb, mi, c, w)
				}
			}
		}
	}
	// omitted version means 7.4; same class => same result
	srcs := []string{"<?php echo 1;", "<?php\n$a = <<<EOT\n  x\n  EOT;\n", "<?php\n$a = <<<EOT\nx\nEOT . 'y';\n", "<?php $a = <<<'E'\n a\n E;\n", "<?php fn($x) => $x;"}
	classes := [][]string{{"5.0", "5.1", "5.2", "5.3", "5.4", "5.5", "5.6"}, {"7.0", "7.1", "7.2"}, {"7.3", "7.4"}}
	for _, src := range srcs {
		func() {
			defer func() {
				if r := recover(); r != nil {
					// crashes on the unchanged tree are C01's business, not C09's
				}
			}()
			v74, _ := version.New("7.4")
			if vcDump(src, nil) != vcDump(src, v74) {
				fmt.Printf("REPRO: omitted version differs from 7.4 on %q\n", src)
			}
			for _, cl := range classes {
				v0, _ := version.New(cl[0])
				ref := vcDump(src, v0)
				for _, vs := range cl[1:] {
					v, _ := version.New(vs)
					if vcDump(src, v) != ref {
						fmt.Printf("REPRO: versions %s and %s (same class) differ on %q\n", cl[0], vs, src)
					}
				}
			}
		}()
	}
}
