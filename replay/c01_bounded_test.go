package parser

// Bounded stand-in for the parts of C01/C06 that no contract reaches yet (the generated scanner
// machine as a whole, the LR driver): the REAL parser is run on every byte string of a bounded
// family, with a watchdog. Labelled `bounded` in the evidence; never counted as proved.
//
//   inputs   = prefix · w,  prefix ∈ a fixed list of scanner-mode-setting prefixes,
//              w ∈ alphabet^≤N  (N from VC_BOUND, default 2)
//   versions = one per class {5.x, 7.0-7.2, 7.3-7.4};  with and without the error callback
//   checks   = no panic; returns before the watchdog; input buffer unchanged; every error has a
//              message and an in-range position with correct lines; errors in source order;
//              the tree does not depend on the callback being installed

import (
	"bytes"
	"fmt"
	"os"
	"strconv"
	"strings"
	"testing"
	"time"

	"github.com/z7zmey/php-parser/pkg/conf"
	"github.com/z7zmey/php-parser/pkg/errors"
	"github.com/z7zmey/php-parser/pkg/version"
	"github.com/z7zmey/php-parser/pkg/visitor/dumper"
)

var vcbPrefixes = []string{"", "<?php ", "<?php \"", "<?php `", "<?php <<<A\n", "<?php <<<'A'\n", "<?php $a->", "<?php /*", "<?php //", "<?", "<?php '", "<?php \"{$a[", "<?php \"$a[", "<?php __halt_compiler();", "<?php \"${", "<?php if ($a) {", "x"}
var vcbAlphabet = []byte{'a', '1', '$', '{', '}', '"', '\'', '`', '\\', '<', '?', '>', '\n', '\r', ' ', ';', '-', 'A', '[', ']', '/', '*', '#', 0x00, 0x80, ':', '('}

func vcbGlob(pat, s string) bool {
	parts := strings.Split(pat, "*")
	if len(parts) == 1 {
		return pat == s
	}
	if !strings.HasPrefix(s, parts[0]) {
		return false
	}
	s = s[len(parts[0]):]
	for i := 1; i < len(parts)-1; i++ {
		k := strings.Index(s, parts[i])
		if k < 0 {
			return false
		}
		s = s[k+len(parts[i]):]
	}
	return strings.HasSuffix(s, parts[len(parts)-1])
}

type vcbOutcome struct {
	dump string
	errs []*errors.Error
	kind string // "", panic, hang
	info string
}

func vcbLineOf(src []byte, off int) int {
	// 1-based; LF, CRLF and a lone CR each end one line
	line := 1
	for i := 0; i < off && i < len(src); i++ {
		if src[i] == '\n' || (src[i] == '\r' && (i+1 >= len(src) || src[i+1] != '\n')) {
			line++
		}
	}
	return line
}

func vcbRun(src []byte, v *version.Version, withCb bool, watchdog time.Duration) vcbOutcome {
	done := make(chan vcbOutcome, 1)
	go func() {
		var out vcbOutcome
		defer func() {
			if r := recover(); r != nil {
				out.kind, out.info = "panic", fmt.Sprint(r)
			}
			done <- out
		}()
		cfg := conf.Config{Version: v}
		if withCb {
			cfg.ErrorHandlerFunc = func(e *errors.Error) { out.errs = append(out.errs, e) }
		}
		root, err := Parse(src, cfg)
		if err != nil {
			out.kind, out.info = "panic", "Parse returned error "+err.Error()
			return
		}
		var buf bytes.Buffer
		if root != nil {
			dumper.NewDumper(&buf).WithTokens().WithPositions().Dump(root)
		}
		out.dump = buf.String()
	}()
	select {
	case o := <-done:
		return o
	case <-time.After(watchdog):
		return vcbOutcome{kind: "hang", info: "no result after " + watchdog.String()}
	}
}

func TestVCBoundedC01(t *testing.T) {
	bound := 2
	if b, err := strconv.Atoi(os.Getenv("VC_BOUND")); err == nil && b >= 0 {
		bound = b
	}
	var skip []string
	for _, g := range strings.Split(os.Getenv("VC_SKIP_GLOBS"), "\x1f") {
		if g != "" {
			skip = append(skip, g)
		}
	}
	versions := []*version.Version{{Major: 5, Minor: 6}, {Major: 7, Minor: 2}, {Major: 7, Minor: 4}}
	vnames := []string{"5.6", "7.2", "7.4"}
	cases, failed, skipped, hangs := 0, 0, 0, 0
	canary := map[string]bool{}
	report := func(kind, vn string, cb bool, src []byte, detail string) {
		failed++
		if failed <= 400 {
			fmt.Printf("BFAIL kind=%s version=%s cb=%v input=%q :: %s\n", kind, vn, cb, string(src), detail)
		}
	}
	var words [][]byte
	var gen func(prefix []byte, n int)
	gen = func(prefix []byte, n int) {
		words = append(words, append([]byte{}, prefix...))
		if n == 0 {
			return
		}
		for _, c := range vcbAlphabet {
			gen(append(prefix, c), n-1)
		}
	}
	gen(nil, bound)
	for _, pf := range vcbPrefixes {
		for _, w := range words {
			src := append([]byte(pf), w...)
			for vi, v := range versions {
				// known hangs are not re-run for every instance (each one leaks a spinning goroutine):
				// the first instance of each listed pattern is run as a canary, the rest are counted as skipped
				isKnown := ""
				for _, g := range skip {
					if vcbGlob(g, "hang/"+vnames[vi]+"/"+strconv.Quote(string(src))) || vcbGlob(g, "hang/*/"+strconv.Quote(string(src))) {
						isKnown = g
					}
				}
				if isKnown != "" {
					if canary[isKnown] {
						skipped++
						continue
					}
					canary[isKnown] = true
				}
				if hangs >= vcbMaxHang() {
					skipped++
					continue
				}
				orig := append([]byte{}, src...)
				cases++
				a := vcbRun(src, v, true, 400*time.Millisecond)
				if a.kind == "hang" {
					hangs++
					report("hang", vnames[vi], true, orig, a.info)
					continue
				}
				b := vcbRun(src, v, false, 400*time.Millisecond)
				if b.kind == "hang" {
					hangs++
					report("hang", vnames[vi], false, orig, b.info)
					continue
				}
				if a.kind != "" {
					report(a.kind, vnames[vi], true, orig, a.info)
				}
				if b.kind != "" && (a.kind == "" || a.info != b.info) {
					report(b.kind, vnames[vi], false, orig, b.info)
				}
				if a.kind != "" || b.kind != "" {
					continue
				}
				if !bytes.Equal(src, orig) {
					report("buffer", vnames[vi], true, orig, "input buffer was modified: "+strconv.Quote(string(src)))
				}
				if a.dump != b.dump {
					report("callback-changes-tree", vnames[vi], true, orig, "the tree differs with and without the callback")
				}
				last := -1
				for _, e := range a.errs {
					if e.Msg == "" {
						report("error-empty-message", vnames[vi], true, orig, "error with empty message")
					}
					if e.Pos == nil {
						continue
					}
					p := e.Pos
					if p.StartPos < 0 || p.EndPos < p.StartPos || p.EndPos > len(orig) {
						report("error-position-range", vnames[vi], true, orig, fmt.Sprintf("%s: position %+v out of range", e.Msg, *p))
						continue
					}
					if p.StartLine != vcbLineOf(orig, p.StartPos) {
						report("error-line", vnames[vi], true, orig, fmt.Sprintf("%s: StartLine %d, offset %d is on line %d", e.Msg, p.StartLine, p.StartPos, vcbLineOf(orig, p.StartPos)))
					}
					if p.StartPos < last {
						report("error-order", vnames[vi], true, orig, fmt.Sprintf("%s at %d reported after an error at %d", e.Msg, p.StartPos, last))
					}
					last = p.StartPos
				}
			}
		}
	}
	fmt.Printf("BOUNDED name=parse-exhaustive bound=%d prefixes=%d alphabet=%d cases=%d failed=%d skipped_known=%d\n", bound, len(vcbPrefixes), len(vcbAlphabet), cases, failed, skipped)
}

func vcbMaxHang() int {
	if n, err := strconv.Atoi(os.Getenv("VC_MAXHANG")); err == nil {
		return n
	}
	return 6
}
