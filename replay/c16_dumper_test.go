package dumper_test

// Replay harness for C16 (injected by overlay): for every node kind a node with every field set
// is dumped by the real dumper under each option combination; the output must parse as a Go
// composite literal of the node's type whose keys are exactly the names of the fields that were
// set (byte values under Val), each once.

import (
	"bytes"
	"fmt"
	goast "go/ast"
	"go/parser"
	"reflect"
	"sort"
	"strings"
	"testing"

	"github.com/z7zmey/php-parser/pkg/ast"
	"github.com/z7zmey/php-parser/pkg/position"
	"github.com/z7zmey/php-parser/pkg/token"
	"github.com/z7zmey/php-parser/pkg/visitor/dumper"
)

var (
	vcTokT  = reflect.TypeOf((*token.Token)(nil))
	vcToksT = reflect.TypeOf([]*token.Token(nil))
	vcVerT  = reflect.TypeOf((*ast.Vertex)(nil)).Elem()
	vcVersT = reflect.TypeOf([]ast.Vertex(nil))
	vcPosT  = reflect.TypeOf((*position.Position)(nil))
)

func vcTok(s string) *token.Token {
	return &token.Token{ID: token.T_STRING, Value: []byte(s), Position: &position.Position{StartLine: 1, EndLine: 1, StartPos: 2, EndPos: 3},
		FreeFloating: []*token.Token{{ID: token.T_WHITESPACE, Value: []byte(" \xe9 ")}, {ID: token.T_COMMENT, Value: []byte("/*\"\\*/")}}}
}

func TestVCReplayC16(t *testing.T) {
	vt := reflect.TypeOf((*ast.Visitor)(nil)).Elem()
	for i := 0; i < vt.NumMethod(); i++ {
		m := vt.Method(i)
		if m.Type.NumIn() != 1 || m.Type.In(0).Kind() != reflect.Ptr {
			continue
		}
		kt := m.Type.In(0).Elem()
		for opt := 0; opt < 4; opt++ {
			withTok, withPos := opt&1 != 0, opt&2 != 0
			n := reflect.New(kt)
			var want []string
			for f := 0; f < kt.NumField(); f++ {
				ft := kt.Field(f)
				fv := n.Elem().Field(f)
				switch {
				case ft.Type == vcPosT:
					fv.Set(reflect.ValueOf(&position.Position{StartLine: 1, EndLine: 2, StartPos: 3, EndPos: 4}))
					if withPos {
						want = append(want, ft.Name)
					}
				case ft.Type == vcTokT:
					fv.Set(reflect.ValueOf(vcTok("t\xe9" + ft.Name)))
					if withTok {
						want = append(want, ft.Name)
					}
				case ft.Type == vcToksT:
					fv.Set(reflect.ValueOf([]*token.Token{vcTok("s" + ft.Name)}))
					if withTok {
						want = append(want, ft.Name)
					}
				case ft.Type == vcVerT:
					fv.Set(reflect.ValueOf(ast.Vertex(&ast.Identifier{Value: []byte("c" + ft.Name)})))
					want = append(want, ft.Name)
				case ft.Type == vcVersT:
					fv.Set(reflect.ValueOf([]ast.Vertex{&ast.Identifier{Value: []byte("l" + ft.Name)}}))
					want = append(want, ft.Name)
				case ft.Name == "Value" && ft.Type.Kind() == reflect.Slice:
					fv.SetBytes([]byte("v\xffx"))
					want = append(want, "Val")
				}
			}
			var buf bytes.Buffer
			d := dumper.NewDumper(&buf)
			if withTok {
				d = d.WithTokens()
			}
			if withPos {
				d = d.WithPositions()
			}
			func() {
				defer func() {
					if r := recover(); r != nil {
						fmt.Printf("REPRO: dumper kind=%s tokens=%v positions=%v: panic %v\n", kt.Name(), withTok, withPos, r)
					}
				}()
				d.Dump(n.Interface().(ast.Vertex))
			}()
			out := strings.TrimSuffix(strings.TrimSpace(buf.String()), ",")
			e, err := parser.ParseExpr(out)
			if err != nil {
				fmt.Printf("REPRO: dumper kind=%s tokens=%v positions=%v: dump is not a valid Go expression: %v\n", kt.Name(), withTok, withPos, err)
				continue
			}
			ue, ok := e.(*goast.UnaryExpr)
			var cl *goast.CompositeLit
			if ok {
				cl, ok = ue.X.(*goast.CompositeLit)
			}
			if !ok {
				fmt.Printf("REPRO: dumper kind=%s: dump is not &ast.%s{...}\n", kt.Name(), kt.Name())
				continue
			}
			if se, ok := cl.Type.(*goast.SelectorExpr); !ok || se.Sel.Name != kt.Name() {
				fmt.Printf("REPRO: dumper kind=%s: literal bears another type\n", kt.Name())
			}
			var got []string
			for _, el := range cl.Elts {
				if kv, ok := el.(*goast.KeyValueExpr); ok {
					got = append(got, kv.Key.(*goast.Ident).Name)
				} else {
					got = append(got, "<unkeyed>")
				}
			}
			sort.Strings(got)
			sort.Strings(want)
			if strings.Join(got, ",") != strings.Join(want, ",") {
				fmt.Printf("REPRO: dumper kind=%s tokens=%v positions=%v: literal has keys %v, the node's set fields are %v\n", kt.Name(), withTok, withPos, got, want)
			}
			// nested free-floating tokens of every token must be present when tokens are requested
			if withTok {
				nTok := 0
				for f := 0; f < kt.NumField(); f++ {
					if kt.Field(f).Type == vcTokT || kt.Field(f).Type == vcToksT {
						nTok++
					}
				}
				if c := strings.Count(buf.String(), "FreeFloating:"); c != nTok {
					fmt.Printf("REPRO: dumper kind=%s: %d tokens hold free-floating tokens, the dump shows %d FreeFloating lists\n", kt.Name(), nTok, c)
				}
			}
		}
	}
}
