package token

// Replay harness for C18 (injected by overlay; never written into /repo).
// Reads the block size from the solver model when present, then also sweeps small sizes and
// the production size across several block boundaries on the real Pool.

import (
	"encoding/json"
	"fmt"
	"os"
	"strconv"
	"testing"
)

func vcSizes() []int {
	sizes := []int{1, 2, 3, 4, 5, 6, 7, 8, 10, 100, 1000, 1024}
	var m map[string]string
	json.Unmarshal([]byte(os.Getenv("VC_MODEL")), &m)
	for k, v := range m {
		if n, err := strconv.Atoi(v); err == nil && n >= 1 && n <= 1<<16 {
			_ = k
			sizes = append(sizes, n)
		}
	}
	return sizes
}

func TestVCReplayC18(t *testing.T) {
	for _, size := range vcSizes() {
		func() {
			defer func() {
				if r := recover(); r != nil {
					fmt.Printf("REPRO: token.NewPool(%d) / Get panics: %v\n", size, r)
				}
			}()
			p := NewPool(size)
			n := 4*size + 3
			if n > 5000 {
				n = 5000
			}
			seen := map[*Token]int{}
			var all []*Token
			for i := 0; i < n; i++ {
				tk := p.Get()
				if tk == nil {
					fmt.Printf("REPRO: token.NewPool(%d): request %d returned nil\n", size, i)
					return
				}
				if j, dup := seen[tk]; dup {
					fmt.Printf("REPRO: token.NewPool(%d): request %d returned the same *Token as request %d\n", size, i, j)
					return
				}
				seen[tk] = i
				tk.ID = ID(i)
				all = append(all, tk)
			}
			for i, tk := range all {
				if tk.ID != ID(i) {
					fmt.Printf("REPRO: token.NewPool(%d): object of request %d was overwritten\n", size, i)
					return
				}
			}
		}()
	}
}
