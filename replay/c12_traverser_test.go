package traverser_test

// Replay harness for C12 (injected by overlay): for every node kind a node with distinct leaf
// children in every child slot is traversed with a recording visitor on the real traverser.

import (
	"fmt"
	"reflect"
	"testing"

	"github.com/z7zmey/php-parser/pkg/ast"
	"github.com/z7zmey/php-parser/pkg/visitor/traverser"
)


var (
	vcVerT  = reflect.TypeOf((*ast.Vertex)(nil)).Elem()
	vcVersT = reflect.TypeOf([]ast.Vertex(nil))
)

func TestVCReplayC12(t *testing.T) {
	vt := reflect.TypeOf((*ast.Visitor)(nil)).Elem()
	for i := 0; i < vt.NumMethod(); i++ {
		m := vt.Method(i)
		if m.Type.NumIn() != 1 || m.Type.In(0).Kind() != reflect.Ptr {
			continue
		}
		kt := m.Type.In(0).Elem()
		n := reflect.New(kt)
		var want []ast.Vertex
		want = append(want, n.Interface().(ast.Vertex))
		// every child is a small subtree (Argument -> Identifier) so that skipped descents show up
		mk := func() []ast.Vertex {
			leaf := &ast.Identifier{}
			return []ast.Vertex{&ast.Argument{Expr: leaf}, leaf}
		}
		for f := 0; f < kt.NumField(); f++ {
			fv := n.Elem().Field(f)
			switch kt.Field(f).Type {
			case vcVerT:
				c := mk()
				fv.Set(reflect.ValueOf(c[0]))
				want = append(want, c...)
			case vcVersT:
				a, b := mk(), mk()
				fv.Set(reflect.ValueOf([]ast.Vertex{a[0], b[0]}))
				want = append(want, a...)
				want = append(want, b...)
			}
		}
		var got []ast.Vertex
		rec := vcMakeRecorder(&got)
		func() {
			defer func() {
				if r := recover(); r != nil {
					fmt.Printf("REPRO: traverser kind=%s: panic %v\n", kt.Name(), r)
				}
			}()
			traverser.NewTraverser(rec).Traverse(n.Interface().(ast.Vertex))
		}()
		ok := len(got) == len(want)
		for j := 0; ok && j < len(got); j++ {
			ok = got[j] == want[j]
		}
		if !ok {
			fmt.Printf("REPRO: traverser kind=%s: visitor saw %d nodes %v, the tree holds %d nodes (parent, then each child subtree in field order)\n", kt.Name(), len(got), vcNames(got), len(want))
		}
	}
}

func vcNames(vs []ast.Vertex) []string {
	var out []string
	for _, v := range vs {
		out = append(out, reflect.TypeOf(v).Elem().Name())
	}
	return out
}

type vcRecorder struct{ got *[]ast.Vertex }

func vcMakeRecorder(got *[]ast.Vertex) ast.Visitor { return &vcRecorder{got} }

func (r *vcRecorder) Root(n *ast.Root) { *r.got = append(*r.got, n) }
func (r *vcRecorder) Nullable(n *ast.Nullable) { *r.got = append(*r.got, n) }
func (r *vcRecorder) Parameter(n *ast.Parameter) { *r.got = append(*r.got, n) }
func (r *vcRecorder) Identifier(n *ast.Identifier) { *r.got = append(*r.got, n) }
func (r *vcRecorder) Argument(n *ast.Argument) { *r.got = append(*r.got, n) }
func (r *vcRecorder) StmtBreak(n *ast.StmtBreak) { *r.got = append(*r.got, n) }
func (r *vcRecorder) StmtCase(n *ast.StmtCase) { *r.got = append(*r.got, n) }
func (r *vcRecorder) StmtCatch(n *ast.StmtCatch) { *r.got = append(*r.got, n) }
func (r *vcRecorder) StmtClass(n *ast.StmtClass) { *r.got = append(*r.got, n) }
func (r *vcRecorder) StmtClassConstList(n *ast.StmtClassConstList) { *r.got = append(*r.got, n) }
func (r *vcRecorder) StmtClassMethod(n *ast.StmtClassMethod) { *r.got = append(*r.got, n) }
func (r *vcRecorder) StmtConstList(n *ast.StmtConstList) { *r.got = append(*r.got, n) }
func (r *vcRecorder) StmtConstant(n *ast.StmtConstant) { *r.got = append(*r.got, n) }
func (r *vcRecorder) StmtContinue(n *ast.StmtContinue) { *r.got = append(*r.got, n) }
func (r *vcRecorder) StmtDeclare(n *ast.StmtDeclare) { *r.got = append(*r.got, n) }
func (r *vcRecorder) StmtDefault(n *ast.StmtDefault) { *r.got = append(*r.got, n) }
func (r *vcRecorder) StmtDo(n *ast.StmtDo) { *r.got = append(*r.got, n) }
func (r *vcRecorder) StmtEcho(n *ast.StmtEcho) { *r.got = append(*r.got, n) }
func (r *vcRecorder) StmtElse(n *ast.StmtElse) { *r.got = append(*r.got, n) }
func (r *vcRecorder) StmtElseIf(n *ast.StmtElseIf) { *r.got = append(*r.got, n) }
func (r *vcRecorder) StmtExpression(n *ast.StmtExpression) { *r.got = append(*r.got, n) }
func (r *vcRecorder) StmtFinally(n *ast.StmtFinally) { *r.got = append(*r.got, n) }
func (r *vcRecorder) StmtFor(n *ast.StmtFor) { *r.got = append(*r.got, n) }
func (r *vcRecorder) StmtForeach(n *ast.StmtForeach) { *r.got = append(*r.got, n) }
func (r *vcRecorder) StmtFunction(n *ast.StmtFunction) { *r.got = append(*r.got, n) }
func (r *vcRecorder) StmtGlobal(n *ast.StmtGlobal) { *r.got = append(*r.got, n) }
func (r *vcRecorder) StmtGoto(n *ast.StmtGoto) { *r.got = append(*r.got, n) }
func (r *vcRecorder) StmtHaltCompiler(n *ast.StmtHaltCompiler) { *r.got = append(*r.got, n) }
func (r *vcRecorder) StmtIf(n *ast.StmtIf) { *r.got = append(*r.got, n) }
func (r *vcRecorder) StmtInlineHtml(n *ast.StmtInlineHtml) { *r.got = append(*r.got, n) }
func (r *vcRecorder) StmtInterface(n *ast.StmtInterface) { *r.got = append(*r.got, n) }
func (r *vcRecorder) StmtLabel(n *ast.StmtLabel) { *r.got = append(*r.got, n) }
func (r *vcRecorder) StmtNamespace(n *ast.StmtNamespace) { *r.got = append(*r.got, n) }
func (r *vcRecorder) StmtNop(n *ast.StmtNop) { *r.got = append(*r.got, n) }
func (r *vcRecorder) StmtProperty(n *ast.StmtProperty) { *r.got = append(*r.got, n) }
func (r *vcRecorder) StmtPropertyList(n *ast.StmtPropertyList) { *r.got = append(*r.got, n) }
func (r *vcRecorder) StmtReturn(n *ast.StmtReturn) { *r.got = append(*r.got, n) }
func (r *vcRecorder) StmtStatic(n *ast.StmtStatic) { *r.got = append(*r.got, n) }
func (r *vcRecorder) StmtStaticVar(n *ast.StmtStaticVar) { *r.got = append(*r.got, n) }
func (r *vcRecorder) StmtStmtList(n *ast.StmtStmtList) { *r.got = append(*r.got, n) }
func (r *vcRecorder) StmtSwitch(n *ast.StmtSwitch) { *r.got = append(*r.got, n) }
func (r *vcRecorder) StmtThrow(n *ast.StmtThrow) { *r.got = append(*r.got, n) }
func (r *vcRecorder) StmtTrait(n *ast.StmtTrait) { *r.got = append(*r.got, n) }
func (r *vcRecorder) StmtTraitUse(n *ast.StmtTraitUse) { *r.got = append(*r.got, n) }
func (r *vcRecorder) StmtTraitUseAlias(n *ast.StmtTraitUseAlias) { *r.got = append(*r.got, n) }
func (r *vcRecorder) StmtTraitUsePrecedence(n *ast.StmtTraitUsePrecedence) { *r.got = append(*r.got, n) }
func (r *vcRecorder) StmtTry(n *ast.StmtTry) { *r.got = append(*r.got, n) }
func (r *vcRecorder) StmtUnset(n *ast.StmtUnset) { *r.got = append(*r.got, n) }
func (r *vcRecorder) StmtUse(n *ast.StmtUseList) { *r.got = append(*r.got, n) }
func (r *vcRecorder) StmtGroupUse(n *ast.StmtGroupUseList) { *r.got = append(*r.got, n) }
func (r *vcRecorder) StmtUseDeclaration(n *ast.StmtUse) { *r.got = append(*r.got, n) }
func (r *vcRecorder) StmtWhile(n *ast.StmtWhile) { *r.got = append(*r.got, n) }
func (r *vcRecorder) ExprArray(n *ast.ExprArray) { *r.got = append(*r.got, n) }
func (r *vcRecorder) ExprArrayDimFetch(n *ast.ExprArrayDimFetch) { *r.got = append(*r.got, n) }
func (r *vcRecorder) ExprArrayItem(n *ast.ExprArrayItem) { *r.got = append(*r.got, n) }
func (r *vcRecorder) ExprArrowFunction(n *ast.ExprArrowFunction) { *r.got = append(*r.got, n) }
func (r *vcRecorder) ExprBrackets(n *ast.ExprBrackets) { *r.got = append(*r.got, n) }
func (r *vcRecorder) ExprBitwiseNot(n *ast.ExprBitwiseNot) { *r.got = append(*r.got, n) }
func (r *vcRecorder) ExprBooleanNot(n *ast.ExprBooleanNot) { *r.got = append(*r.got, n) }
func (r *vcRecorder) ExprClassConstFetch(n *ast.ExprClassConstFetch) { *r.got = append(*r.got, n) }
func (r *vcRecorder) ExprClone(n *ast.ExprClone) { *r.got = append(*r.got, n) }
func (r *vcRecorder) ExprClosure(n *ast.ExprClosure) { *r.got = append(*r.got, n) }
func (r *vcRecorder) ExprClosureUse(n *ast.ExprClosureUse) { *r.got = append(*r.got, n) }
func (r *vcRecorder) ExprConstFetch(n *ast.ExprConstFetch) { *r.got = append(*r.got, n) }
func (r *vcRecorder) ExprEmpty(n *ast.ExprEmpty) { *r.got = append(*r.got, n) }
func (r *vcRecorder) ExprErrorSuppress(n *ast.ExprErrorSuppress) { *r.got = append(*r.got, n) }
func (r *vcRecorder) ExprEval(n *ast.ExprEval) { *r.got = append(*r.got, n) }
func (r *vcRecorder) ExprExit(n *ast.ExprExit) { *r.got = append(*r.got, n) }
func (r *vcRecorder) ExprFunctionCall(n *ast.ExprFunctionCall) { *r.got = append(*r.got, n) }
func (r *vcRecorder) ExprInclude(n *ast.ExprInclude) { *r.got = append(*r.got, n) }
func (r *vcRecorder) ExprIncludeOnce(n *ast.ExprIncludeOnce) { *r.got = append(*r.got, n) }
func (r *vcRecorder) ExprInstanceOf(n *ast.ExprInstanceOf) { *r.got = append(*r.got, n) }
func (r *vcRecorder) ExprIsset(n *ast.ExprIsset) { *r.got = append(*r.got, n) }
func (r *vcRecorder) ExprList(n *ast.ExprList) { *r.got = append(*r.got, n) }
func (r *vcRecorder) ExprMethodCall(n *ast.ExprMethodCall) { *r.got = append(*r.got, n) }
func (r *vcRecorder) ExprNew(n *ast.ExprNew) { *r.got = append(*r.got, n) }
func (r *vcRecorder) ExprPostDec(n *ast.ExprPostDec) { *r.got = append(*r.got, n) }
func (r *vcRecorder) ExprPostInc(n *ast.ExprPostInc) { *r.got = append(*r.got, n) }
func (r *vcRecorder) ExprPreDec(n *ast.ExprPreDec) { *r.got = append(*r.got, n) }
func (r *vcRecorder) ExprPreInc(n *ast.ExprPreInc) { *r.got = append(*r.got, n) }
func (r *vcRecorder) ExprPrint(n *ast.ExprPrint) { *r.got = append(*r.got, n) }
func (r *vcRecorder) ExprPropertyFetch(n *ast.ExprPropertyFetch) { *r.got = append(*r.got, n) }
func (r *vcRecorder) ExprRequire(n *ast.ExprRequire) { *r.got = append(*r.got, n) }
func (r *vcRecorder) ExprRequireOnce(n *ast.ExprRequireOnce) { *r.got = append(*r.got, n) }
func (r *vcRecorder) ExprShellExec(n *ast.ExprShellExec) { *r.got = append(*r.got, n) }
func (r *vcRecorder) ExprStaticCall(n *ast.ExprStaticCall) { *r.got = append(*r.got, n) }
func (r *vcRecorder) ExprStaticPropertyFetch(n *ast.ExprStaticPropertyFetch) { *r.got = append(*r.got, n) }
func (r *vcRecorder) ExprTernary(n *ast.ExprTernary) { *r.got = append(*r.got, n) }
func (r *vcRecorder) ExprUnaryMinus(n *ast.ExprUnaryMinus) { *r.got = append(*r.got, n) }
func (r *vcRecorder) ExprUnaryPlus(n *ast.ExprUnaryPlus) { *r.got = append(*r.got, n) }
func (r *vcRecorder) ExprVariable(n *ast.ExprVariable) { *r.got = append(*r.got, n) }
func (r *vcRecorder) ExprYield(n *ast.ExprYield) { *r.got = append(*r.got, n) }
func (r *vcRecorder) ExprYieldFrom(n *ast.ExprYieldFrom) { *r.got = append(*r.got, n) }
func (r *vcRecorder) ExprAssign(n *ast.ExprAssign) { *r.got = append(*r.got, n) }
func (r *vcRecorder) ExprAssignReference(n *ast.ExprAssignReference) { *r.got = append(*r.got, n) }
func (r *vcRecorder) ExprAssignBitwiseAnd(n *ast.ExprAssignBitwiseAnd) { *r.got = append(*r.got, n) }
func (r *vcRecorder) ExprAssignBitwiseOr(n *ast.ExprAssignBitwiseOr) { *r.got = append(*r.got, n) }
func (r *vcRecorder) ExprAssignBitwiseXor(n *ast.ExprAssignBitwiseXor) { *r.got = append(*r.got, n) }
func (r *vcRecorder) ExprAssignCoalesce(n *ast.ExprAssignCoalesce) { *r.got = append(*r.got, n) }
func (r *vcRecorder) ExprAssignConcat(n *ast.ExprAssignConcat) { *r.got = append(*r.got, n) }
func (r *vcRecorder) ExprAssignDiv(n *ast.ExprAssignDiv) { *r.got = append(*r.got, n) }
func (r *vcRecorder) ExprAssignMinus(n *ast.ExprAssignMinus) { *r.got = append(*r.got, n) }
func (r *vcRecorder) ExprAssignMod(n *ast.ExprAssignMod) { *r.got = append(*r.got, n) }
func (r *vcRecorder) ExprAssignMul(n *ast.ExprAssignMul) { *r.got = append(*r.got, n) }
func (r *vcRecorder) ExprAssignPlus(n *ast.ExprAssignPlus) { *r.got = append(*r.got, n) }
func (r *vcRecorder) ExprAssignPow(n *ast.ExprAssignPow) { *r.got = append(*r.got, n) }
func (r *vcRecorder) ExprAssignShiftLeft(n *ast.ExprAssignShiftLeft) { *r.got = append(*r.got, n) }
func (r *vcRecorder) ExprAssignShiftRight(n *ast.ExprAssignShiftRight) { *r.got = append(*r.got, n) }
func (r *vcRecorder) ExprBinaryBitwiseAnd(n *ast.ExprBinaryBitwiseAnd) { *r.got = append(*r.got, n) }
func (r *vcRecorder) ExprBinaryBitwiseOr(n *ast.ExprBinaryBitwiseOr) { *r.got = append(*r.got, n) }
func (r *vcRecorder) ExprBinaryBitwiseXor(n *ast.ExprBinaryBitwiseXor) { *r.got = append(*r.got, n) }
func (r *vcRecorder) ExprBinaryBooleanAnd(n *ast.ExprBinaryBooleanAnd) { *r.got = append(*r.got, n) }
func (r *vcRecorder) ExprBinaryBooleanOr(n *ast.ExprBinaryBooleanOr) { *r.got = append(*r.got, n) }
func (r *vcRecorder) ExprBinaryCoalesce(n *ast.ExprBinaryCoalesce) { *r.got = append(*r.got, n) }
func (r *vcRecorder) ExprBinaryConcat(n *ast.ExprBinaryConcat) { *r.got = append(*r.got, n) }
func (r *vcRecorder) ExprBinaryDiv(n *ast.ExprBinaryDiv) { *r.got = append(*r.got, n) }
func (r *vcRecorder) ExprBinaryEqual(n *ast.ExprBinaryEqual) { *r.got = append(*r.got, n) }
func (r *vcRecorder) ExprBinaryGreater(n *ast.ExprBinaryGreater) { *r.got = append(*r.got, n) }
func (r *vcRecorder) ExprBinaryGreaterOrEqual(n *ast.ExprBinaryGreaterOrEqual) { *r.got = append(*r.got, n) }
func (r *vcRecorder) ExprBinaryIdentical(n *ast.ExprBinaryIdentical) { *r.got = append(*r.got, n) }
func (r *vcRecorder) ExprBinaryLogicalAnd(n *ast.ExprBinaryLogicalAnd) { *r.got = append(*r.got, n) }
func (r *vcRecorder) ExprBinaryLogicalOr(n *ast.ExprBinaryLogicalOr) { *r.got = append(*r.got, n) }
func (r *vcRecorder) ExprBinaryLogicalXor(n *ast.ExprBinaryLogicalXor) { *r.got = append(*r.got, n) }
func (r *vcRecorder) ExprBinaryMinus(n *ast.ExprBinaryMinus) { *r.got = append(*r.got, n) }
func (r *vcRecorder) ExprBinaryMod(n *ast.ExprBinaryMod) { *r.got = append(*r.got, n) }
func (r *vcRecorder) ExprBinaryMul(n *ast.ExprBinaryMul) { *r.got = append(*r.got, n) }
func (r *vcRecorder) ExprBinaryNotEqual(n *ast.ExprBinaryNotEqual) { *r.got = append(*r.got, n) }
func (r *vcRecorder) ExprBinaryNotIdentical(n *ast.ExprBinaryNotIdentical) { *r.got = append(*r.got, n) }
func (r *vcRecorder) ExprBinaryPlus(n *ast.ExprBinaryPlus) { *r.got = append(*r.got, n) }
func (r *vcRecorder) ExprBinaryPow(n *ast.ExprBinaryPow) { *r.got = append(*r.got, n) }
func (r *vcRecorder) ExprBinaryShiftLeft(n *ast.ExprBinaryShiftLeft) { *r.got = append(*r.got, n) }
func (r *vcRecorder) ExprBinaryShiftRight(n *ast.ExprBinaryShiftRight) { *r.got = append(*r.got, n) }
func (r *vcRecorder) ExprBinarySmaller(n *ast.ExprBinarySmaller) { *r.got = append(*r.got, n) }
func (r *vcRecorder) ExprBinarySmallerOrEqual(n *ast.ExprBinarySmallerOrEqual) { *r.got = append(*r.got, n) }
func (r *vcRecorder) ExprBinarySpaceship(n *ast.ExprBinarySpaceship) { *r.got = append(*r.got, n) }
func (r *vcRecorder) ExprCastArray(n *ast.ExprCastArray) { *r.got = append(*r.got, n) }
func (r *vcRecorder) ExprCastBool(n *ast.ExprCastBool) { *r.got = append(*r.got, n) }
func (r *vcRecorder) ExprCastDouble(n *ast.ExprCastDouble) { *r.got = append(*r.got, n) }
func (r *vcRecorder) ExprCastInt(n *ast.ExprCastInt) { *r.got = append(*r.got, n) }
func (r *vcRecorder) ExprCastObject(n *ast.ExprCastObject) { *r.got = append(*r.got, n) }
func (r *vcRecorder) ExprCastString(n *ast.ExprCastString) { *r.got = append(*r.got, n) }
func (r *vcRecorder) ExprCastUnset(n *ast.ExprCastUnset) { *r.got = append(*r.got, n) }
func (r *vcRecorder) ScalarDnumber(n *ast.ScalarDnumber) { *r.got = append(*r.got, n) }
func (r *vcRecorder) ScalarEncapsed(n *ast.ScalarEncapsed) { *r.got = append(*r.got, n) }
func (r *vcRecorder) ScalarEncapsedStringPart(n *ast.ScalarEncapsedStringPart) { *r.got = append(*r.got, n) }
func (r *vcRecorder) ScalarEncapsedStringVar(n *ast.ScalarEncapsedStringVar) { *r.got = append(*r.got, n) }
func (r *vcRecorder) ScalarEncapsedStringBrackets(n *ast.ScalarEncapsedStringBrackets) { *r.got = append(*r.got, n) }
func (r *vcRecorder) ScalarHeredoc(n *ast.ScalarHeredoc) { *r.got = append(*r.got, n) }
func (r *vcRecorder) ScalarLnumber(n *ast.ScalarLnumber) { *r.got = append(*r.got, n) }
func (r *vcRecorder) ScalarMagicConstant(n *ast.ScalarMagicConstant) { *r.got = append(*r.got, n) }
func (r *vcRecorder) ScalarString(n *ast.ScalarString) { *r.got = append(*r.got, n) }
func (r *vcRecorder) NameName(n *ast.Name) { *r.got = append(*r.got, n) }
func (r *vcRecorder) NameFullyQualified(n *ast.NameFullyQualified) { *r.got = append(*r.got, n) }
func (r *vcRecorder) NameRelative(n *ast.NameRelative) { *r.got = append(*r.got, n) }
func (r *vcRecorder) NameNamePart(n *ast.NamePart) { *r.got = append(*r.got, n) }
