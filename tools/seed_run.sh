#!/bin/bash
# seed_run.sh <patchfile> <prop>...   apply the patch to /repo, run the quick checks of the listed properties, undo the patch
export GOFLAGS=-mod=mod GOPROXY=off GOSUMDB=off GOTOOLCHAIN=local
patch=$1; shift
cd /repo && git status --short | grep -q . && { echo "/repo is dirty"; exit 2; }
git -C /repo apply "$patch" || { echo "patch does not apply to /repo"; exit 2; }
for p in "$@"; do
  out=$(cd /verif && bin/vc check --property $p --tier quick 2>&1); rc=$?
  nv=$(echo "$out" | grep -c "^VIOLATION")
  echo "  $p: exit=$rc violations=$nv"
  echo "$out" | grep "^VIOLATION" | head -4 | cut -c1-260 | sed 's/^/      /'
done
git -C /repo checkout -- .
cd /verif && git checkout -q -- evidence 2>/dev/null
