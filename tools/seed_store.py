#!/usr/bin/env python3
# seed_store.py <prop> <A|B> <slug> <caught: yes|no|partial> <checks that catch it, comma separated> [srcdir]
import sys, os, json, shutil, glob, re
prop, v, slug, caught, by = sys.argv[1:6]
wt = sys.argv[6] if len(sys.argv) > 6 else '/tmp/mut/'+prop
out = wt + '/_out'
d = '/verif/seeded/%s-%s-%s' % (prop, v, slug)
os.makedirs(d, exist_ok=True)
shutil.copy(out+'/%s.patch.diff' % v, d+'/patch.diff')
demo = sorted(glob.glob(out+'/%s_demo*' % v))[0]
dn = 'demo_test.go.txt' if demo.endswith('_test.go') else 'demo.go.txt'
shutil.copy(demo, d+'/'+dn)
md = open(out+'/%s.md' % v).read() if os.path.exists(out+'/%s.md' % v) else ''
open(d+'/README.md', 'w').write(md)
place = re.search(r'place in (\S+)', open(demo).read())
meta = {
 'id': os.path.basename(d), 'breaks_property': prop,
 'origin': 'independent sub-agent given only the property text and a scratch worktree',
 'demo_file': dn, 'demo_place_in': place.group(1) if place else None,
 'needs_to_manifest': ' '.join(l.strip() for l in md.splitlines() if re.search(r'(?i)need|manifest|trigger|show up', l))[:900],
 'confirmed': 'tools/seed_confirm.sh %s %s: demo passes on unmodified code; full suite (go test -vet=off -count=1 ./...) passes with the change; demo fails with the change' % (prop, v),
 'detected': caught, 'detected_by': [b for b in by.split(',') if b],
 'ran': 'tools/seed_run.sh seeded/%s/patch.diff %s' % (os.path.basename(d), ' '.join(sorted(set(x.split('/')[0] for x in by.split(',') if x)) or [prop])),
}
json.dump(meta, open(d+'/meta.json', 'w'), indent=1)
print('stored', d)
