#!/usr/bin/env python3
# Regenerates /verif/MANIFEST.json from the table below (kept in one place so it stays valid).
import json, subprocess
props=[json.loads(l) for l in open('/verif/properties.jsonl')]
ENV="GOFLAGS=-mod=mod GOPROXY=off GOSUMDB=off GOTOOLCHAIN=local"
claimed={}
def claim(pid, category, text, note, technique, ref):
    claimed[pid]=dict(property_id=pid,
        quick_cmd=f"cd /verif && {ENV} bin/vc check --property {pid} --tier quick",
        thorough_cmd=f"cd /verif && {ENV} bin/vc check --property {pid} --tier thorough",
        evidence_file=f"/verif/evidence/{pid}.json",
        replay_cmd_template="cd /verif && bin/vc replay {path}",
        engine="vc",
        level_claimed=dict(category=category,text=text,design_ref=ref),
        level_note=note, technique=technique)
na={}
exec(open('/verif/tools/claims.py').read())
hooks_commits=subprocess.run("git -C /repo log --format=%H --grep='^verif:' ",shell=True,capture_output=True,text=True).stdout.split()
m={"version":1,
 "setup_cmd":f"cd /verif && {ENV} go build -o bin/vc ./cmd/vc",
 "hooks":{"guard":"verif","enable":"go/packages loads /repo with -tags verif; the guarded files (zz_contracts_verif.go) are comment-only contract files, they add no code","baseline_off_cmd":f"cd /repo && {ENV} go test -vet=off -count=1 ./...","source_commits":hooks_commits,"add_only":True},
 "engines":[{"name":"vc","path":"/verif/cmd/vc","serves_properties":sorted(claimed),"kind_free_text":"self-written verification-condition generator over go/ssa (weakest preconditions, modular contracts read from comment-only files in /repo, frame/trace/grammar obligation generators) discharging to z3 / cvc5"}],
 "checks":[claimed[k] for k in sorted(claimed)],
 "notes":"Contract-based deductive verification; see DESIGN.md. Known genuine defects are listed in known_findings.jsonl.",
 "not_applicable":[{"property_id":p["id"],"reason":na.get(p["id"],"check not built yet (DESIGN.md §11 build order)")} for p in props if p["id"] not in claimed]}
json.dump(m,open('/verif/MANIFEST.json','w'),indent=1)
print("claimed:",sorted(claimed))
