#!/bin/bash
# seed_all.sh [seed-id-glob]   run every stored seeded change against the quick checks of its property
# in a scratch copy of /repo (so /repo and /verif/evidence stay untouched) and record the outcome in meta.json
export GOFLAGS=-mod=mod GOPROXY=off GOSUMDB=off GOTOOLCHAIN=local
pat=${1:-*}
R=/tmp/repo_seed; V=/tmp/verif_seed
rm -rf $R $V; mkdir -p $V
rsync -a --exclude .git /repo/ $R/
for f in known_findings.jsonl scan_unproved.jsonl replay properties.jsonl; do ln -s /verif/$f $V/$f; done
for d in /verif/seeded/$pat/; do
  id=$(basename $d); prop=${id%%-*}
  rsync -a --delete --exclude .git /repo/ $R/
  (cd $R && patch -s -p1 < $d/patch.diff) || { echo "$id: patch does not apply"; continue; }
  out=$(cd /verif && VC_REPO=$R VC_VERIF=$V bin/vc check --property $prop --tier quick 2>&1); rc=$?
  nv=$(echo "$out" | grep -c "^VIOLATION")
  first=$(echo "$out" | grep "^VIOLATION" | head -3 | sed -E 's/.*obligation=//' | cut -c1-200 | tr '\n' '|')
  echo "$id: exit=$rc violations=$nv :: $first"
  python3 - "$d" "$rc" "$prop" "$first" <<'PY'
import json,sys
d,rc,prop,first=sys.argv[1:5]
m=json.load(open(d+'/meta.json'))
m['detected']='yes' if rc=='1' else 'no'
m['detected_by']=[prop+'/'+x for x in first.split('|') if x]
m['ran']='tools/seed_all.sh (scratch copy of /repo with the patch applied; quick check of %s)'%prop
json.dump(m,open(d+'/meta.json','w'),indent=1)
PY
done
rm -rf $R $V
