#!/usr/bin/env python3
# seed_table.py: regenerates the table of seeded changes in DESIGN.md (section 14.5) from seeded/*/meta.json
import json,glob,os,re
rows=[]
for d in sorted(glob.glob('/verif/seeded/*/')):
    m=json.load(open(d+'meta.json'))
    by=(m.get('detected_by') or ['-'])[0]
    by=re.sub(r'^C\d\d/','',by)
    rows.append('| %s | %s | %s | %s |' % (m['id'], m['breaks_property'], m.get('detected','?'), by[:110].replace('|','\\|')))
tab='| seeded change | property | detected | first failing obligation |\n|---|---|---|---|\n'+'\n'.join(rows)+'\n'
s=open('/verif/DESIGN.md').read()
i=s.index('| seeded change | property | detected | first failing obligation |')
j=s.index('\n\n',i)
s=s[:i]+tab.rstrip('\n')+s[j:]
open('/verif/DESIGN.md','w').write(s)
print(len(rows),'rows')
