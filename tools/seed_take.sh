#!/bin/bash
# seed_take.sh <worktree> <seed-id e.g. C14-E-some-slug> "<one-line what>"
# intake of a sub-agent's seeded change: copy <worktree>/SEED into /verif/seeded/<id>/, confirm it in a scratch copy
# (tools/seed_confirm2.sh), run the quick check of its property against a scratch copy with the patch applied
# (tools/seed_try.sh) and write meta.json. Nothing in /repo is touched.
wt=$1; id=$2; what=$3
prop=${id%%-*}
d=/verif/seeded/$id
mkdir -p $d
cp $wt/SEED/patch.diff $wt/SEED/demo_test.go.txt $wt/SEED/README.md $d/ || exit 2
conf=$(/verif/tools/seed_confirm2.sh $d 2>&1); echo "$conf"
try=$(/verif/tools/seed_try.sh $d/patch.diff $prop 2>&1); echo "$try"
python3 - "$d" "$id" "$prop" "$what" "$conf" "$try" <<'PY'
import json,sys,re
d,id_,prop,what,conf,try_=sys.argv[1:7]
place=re.search(r'place in:*\s*(\S+)', open(d+'/demo_test.go.txt').readline())
ok = ('(a) demo on unmodified tree: ok' in conf) and ('(b) suite with change: all ok' in conf) and re.search(r'\(c\) demo with change: (FAIL|.*panic)', conf) is not None
viol=[l.strip() for l in try_.splitlines() if l.strip().startswith('VIOLATION')]
det = 'exit=1' in try_
meta={'id':id_,'breaks_property':prop,
 'origin':'independent sub-agent given only the property text, a focus hint and a scratch worktree (contract files removed from it)',
 'what':what,'demo_file':'demo_test.go.txt','demo_place_in':place.group(1) if place else None,
 'needs_to_manifest':open(d+'/README.md').read()[:1500],
 'confirmed':('tools/seed_confirm2.sh: (a) demo passes on the unmodified tree, (b) go test -vet=off -count=1 ./... passes with the change, (c) demo fails with the change' if ok else 'NOT CONFIRMED: '+conf),
 'detected':'yes' if det else 'no',
 'detected_by':[re.sub(r'.*obligation=','',v)[:200] for v in viol[:3]],
 'ran':'tools/seed_try.sh /verif/seeded/%s/patch.diff %s (scratch copy of /repo)'%(id_,prop)}
json.dump(meta,open(d+'/meta.json','w'),indent=1)
print('stored',d,'confirmed' if ok else 'NOT-CONFIRMED','detected' if det else 'MISSED')
PY
