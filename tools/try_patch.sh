#!/bin/bash
# usage: try_patch.sh <patch.diff> <property>...   — run checks against a scratch copy of /repo with the patch applied.
# Scratch copy lives under /tmp and is removed afterwards. Output dir for evidence/replays is scratch too.
set -u
patch="$1"; shift
export GOFLAGS=-mod=mod GOPROXY=off GOSUMDB=off GOTOOLCHAIN=local
S=$(mktemp -d /tmp/vctry.XXXXXX)
rsync -a --exclude .git /repo/ "$S/repo/"
( cd "$S/repo" && git init -q . && git apply --whitespace=nowarn "$patch" ) || { echo "PATCH DOES NOT APPLY"; rm -rf "$S"; exit 3; }
mkdir -p "$S/verif"
ln -s /verif/replay "$S/verif/replay"
[ -f /verif/known_findings.jsonl ] && cp /verif/known_findings.jsonl "$S/verif/"
rc=0
for p in "$@"; do
  VC_REPO="$S/repo" VC_VERIF="$S/verif" /verif/bin/vc check --property "$p" --tier "${TIER:-quick}" 2>&1 | grep -E "^(VIOLATION|KNOWN-FINDING|C[0-9]+ |load error|no obl)" | cut -c1-400
  r=${PIPESTATUS[0]}; [ $r -ne 0 ] && rc=$r
  if [ -n "${SHOW_REPLAY:-}" ]; then for f in "$S"/verif/replays/$p/*.json; do [ -f "$f" ] && jq -c '{obligation, failing_input_reproduced, inputs: .replay.failing_inputs}' "$f"; done; fi
done
rm -rf "$S"
exit $rc
