#!/bin/bash
# seed_confirm.sh <prop> <A|B> [srcdir]
# Confirms a candidate seeded change in its scratch worktree (/tmp/mut/<prop>):
#   1. demo passes on the unmodified code   2. full suite passes with the change
#   3. demo fails with the change
# and, if all hold, runs the registered check(s) of that property against /repo with the patch
# applied (undone straight afterwards). Prints a one-line verdict per step.
export GOFLAGS=-mod=mod GOPROXY=off GOSUMDB=off GOTOOLCHAIN=local
prop=$1; v=$2; wt=${3:-/tmp/mut/$prop}
out=$wt/_out
patch=$out/$v.patch.diff
demo=$(ls $out/${v}_demo*.go 2>/dev/null | head -1)
[ -f "$patch" ] || { echo "no patch $patch"; exit 2; }
[ -f "$demo" ] || { echo "no demo for $v"; exit 2; }
dir=$(head -5 "$demo" | grep -o "place in [^ ]*" | head -1 | awk '{print $3}' | sed 's:/*$::')
[ -n "$dir" ] || { echo "demo has no 'place in <dir>' line"; exit 2; }
cd $wt || exit 2
git checkout -q -- . ; git clean -fdq -e _out
dname=zz_seed_demo_test.go
case "$demo" in *_test.go) ;; *) dname=zz_seed_demo.go;; esac
cp "$demo" $dir/$dname
if go test -vet=off -count=1 ./$dir/ >/tmp/seed_$prop$v.1 2>&1; then echo "1 demo passes without change: ok"; else echo "1 demo FAILS without change"; tail -15 /tmp/seed_$prop$v.1; rm -f $dir/$dname; exit 1; fi
rm -f $dir/$dname
git apply "$patch" || { echo "patch does not apply"; exit 1; }
if go build ./... >/tmp/seed_$prop$v.2 2>&1 && go test -vet=off -count=1 ./... >>/tmp/seed_$prop$v.2 2>&1; then echo "2 suite passes with change: ok"; else echo "2 suite FAILS with change"; tail -15 /tmp/seed_$prop$v.2; git checkout -q -- .; exit 1; fi
cp "$demo" $dir/$dname
if go test -vet=off -count=1 ./$dir/ >/tmp/seed_$prop$v.3 2>&1; then echo "3 demo PASSES with change (not a demonstration)"; rm -f $dir/$dname; git checkout -q -- .; exit 1; else echo "3 demo fails with change: ok"; fi
rm -f $dir/$dname
git checkout -q -- . ; git clean -fdq -e _out
rm -f /tmp/seed_$prop$v.[123]
echo "CONFIRMED $prop $v"
