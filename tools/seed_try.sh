#!/bin/bash
# seed_try.sh <patchfile> <prop>...   apply a patch to a private scratch copy of /repo and run the quick checks of the
# listed properties against it (nothing in /repo or /verif/evidence is touched)
export GOFLAGS=-mod=mod GOPROXY=off GOSUMDB=off GOTOOLCHAIN=local
patch=$1; shift
R=$(mktemp -d /tmp/repo_try.XXXX); V=$(mktemp -d /tmp/verif_try.XXXX)
rsync -a --exclude .git /repo/ $R/
for f in known_findings.jsonl scan_unproved.jsonl replay properties.jsonl; do ln -s /verif/$f $V/$f; done
(cd $R && patch -s -p1 < $patch) || { echo "patch does not apply"; rm -rf $R $V; exit 2; }
for p in "$@"; do
  out=$(cd /verif && VC_REPO=$R VC_VERIF=$V bin/vc check --property $p --tier quick 2>&1); rc=$?
  echo "  $p: exit=$rc violations=$(echo "$out" | grep -c '^VIOLATION')"
  echo "$out" | grep "^VIOLATION" | head -4 | sed -E 's/replay=[^ ]* //' | cut -c1-260 | sed 's/^/      /'
done
rm -rf $R $V
