#!/bin/bash
# seed_confirm2.sh <dir with patch.diff and demo_test.go.txt>   confirm a seeded change in a scratch copy of /repo:
#  (a) demo passes on the unmodified tree  (b) whole suite passes with the change  (c) demo fails with the change
export GOFLAGS=-mod=mod GOPROXY=off GOSUMDB=off GOTOOLCHAIN=local
d=$1
R=$(mktemp -d /tmp/repo_conf.XXXX)
rsync -a --exclude .git /repo/ $R/
place=$(head -3 $d/demo_test.go.txt | grep -o 'place in:* *[^ ]*' | head -1 | sed -E 's/place in:* *//')
[ -z "$place" ] && { echo "no 'place in' line in demo"; exit 2; }
place=${place%/}
cp $d/demo_test.go.txt $R/$place/zz_seed_demo_test.go
a=$(cd $R && timeout 600 go test -vet=off -count=1 ./$place/ 2>&1 | tail -3); echo "(a) demo on unmodified tree: $(echo "$a" | tail -1)"
rm $R/$place/zz_seed_demo_test.go
(cd $R && patch -s -p1 < $d/patch.diff) || { echo "patch does not apply"; rm -rf $R; exit 2; }
b=$(cd $R && timeout 1200 go test -vet=off -count=1 ./... 2>&1 | grep -v "^ok\|no test files" | head -5); echo "(b) suite with change: ${b:-all ok}"
cp $d/demo_test.go.txt $R/$place/zz_seed_demo_test.go
c=$(cd $R && timeout 600 go test -vet=off -count=1 ./$place/ 2>&1 | tail -2); echo "(c) demo with change: $(echo "$c" | tail -1)"
rm -rf $R
